"""C05: slicing follows Python / NumPy basic-indexing semantics (index level and view level)."""
import itertools
import os

import numpy as np

from .. import build as B
from .. import run as R
from .. import c05_model as M
from ..util import Tok, split_hooks, harness_targets, build_or_fail, fmt_vec, HookAcc, SITE_NAMES

IX_BINS = ["c05_ix_single", "c05_ix_multi2", "c05_ix_multi3", "c05_ix_dyn", "c05_ix_either"]
V_BINS = ["c05_v_single", "c05_v_multi2", "c05_v_multi3", "c05_v_multi3e", "c05_v_dyn"]

SAN = "ASan+UBSan+_GLIBCXX_ASSERTIONS build of the harness from the working tree"
CLAIM = dict(
    technique="runtime monitoring: sanitizer-instrumented execution of index::apply_shape_slice/apply_slice and of "
              "view::apply_slice/slice/apply_mutable_slice through every evaluation route, bounds hooks in the indexing views, "
              "decided by Python's slice.indices / NumPy basic indexing on a uniquely labelled array",
    text="Exhaustive per axis: extents 1..6, start/stop in [-(n+2), n+2] or omitted, step in +-1..3 or omitted, for the 12 packed "
         "None-patterns (int and long long parts, three shape container kinds), index-array parts, run-time lists of one range type and "
         "lists of either-typed parts, at the index level and (dynamic ndarray, unique labels, lazy + 4 eval routes) at the view level; "
         "sampled (thorough: exhaustive small) 2-axis and sampled 3-axis combinations with integers and an ellipsis in every position "
         "over ~45 pre-instantiated type patterns plus run-time either lists; a deterministic grid of extents 2^24-1..2^40 at the index level "
         "(float length rounding); the variadic view::slice front end (CTAD) and write-through of mutable slices. Shape and every element "
         "are compared. Violations are keyed by the per-axis argument class (given-ness x sign x in/out of range x step sign x empty result); "
         "a multi-axis / view-level / other-encoding failure that is explained by a failing reference axis case is attributed to that class. "
         "Held-on-observed, not a proof.",
    note="Trusted: Python slice.indices/range and NumPy basic indexing as the model; " + SAN + ". Indices with fewer parts than axes and no "
         "ellipsis, out-of-range integer parts and step 0 are outside the accepted argument set (unchecked preconditions) and are not generated.",
    ref="DESIGN.md 4/C05")
TARGETS_QUICK = [(n, "asan") for n in IX_BINS + V_BINS] + [lambda: [ct_slice_target()]]

# ---- op tables (mirror the harness sources) -----------------------------------------------------
MULTI2 = ["m_I_I", "m_I_R", "m_R_I", "m_R_R", "m_I_E", "m_E_I", "m_R_E", "m_E_R", "m_Ra_Rb", "m_Rc_Rd", "m_Re_Rf",
          "m_Rg_Rh", "m_Ri_Rj", "m_Rn_I", "m_I_Rc", "m_E_Rd", "m_Rb_E"]
MULTI3 = ["m_I_I_I", "m_I_I_R", "m_I_R_I", "m_R_I_I", "m_I_R_R", "m_R_I_R", "m_R_R_I", "m_R_R_R", "m_Rc_Ra_Rb",
          "m_Rd_I_Re", "m_Rn_Rc_I", "m_R_E_R_R", "m_E_R_I_R", "m_I_R_R_E"]
MULTI3E = ["m_E_I_I", "m_E_I_R", "m_E_R_I", "m_E_R_R", "m_I_E_I", "m_I_E_R", "m_R_E_I", "m_R_E_R", "m_I_I_E",
           "m_I_R_E", "m_R_I_E", "m_R_R_E"]
IX_DYN = ["d_" + c for c in M.RANGE_CODES] + ["d_a3", "d_a2", "d_a3_l"]
IX_EITHER = ["e1_iii", "e1_ii", "e1_nn", "e1_ni", "e1_in", "e1_nni", "e1_ini", "e1_nii", "e1_a3", "e1_a2", "e2_iii", "e2_a3"]
V_DYN = ["d_a3", "d_a2", "d_iii", "d_nni", "d_in", "e1_iii", "e1_nn", "e1_ini", "e1_a3", "e2_iii"]
VS_OPS = {"vs_ii": ["ii"], "vs_iii": ["iii"], "vs_I": ["I"], "vs_R_R": ["iii", "iii"], "vs_I_R": ["I", "iii"],
          "vs_R_I": ["iii", "I"], "vs_E_R": ["E", "iii"], "vs_Rc_Rd": ["nni", "ini"], "vs_R_E_I": ["iii", "E", "I"]}
VM_OPS = {"vm_iii": ["iii"], "vm_nni": ["nni"], "vm_in": ["in"], "vm_I_R": ["I", "iii"], "vm_R_E": ["iii", "E"],
          "vm_E_I_Rb": ["E", "I", "ni"]}
SHAPE_KINDS = {0: "list_size_t", 1: "array_size_t", 2: "list_int"}


def dyn_code(op):
    return op.split("_")[1]


class Case:
    __slots__ = ("cid", "level", "bin", "op", "family", "shape", "parts", "mode", "kind", "queries", "line", "dyn", "codes")

    def __init__(self, **kw):
        for k in self.__slots__:
            setattr(self, k, kw.get(k))

    def brief(self):
        return dict(level=self.level, op=self.op, family=self.family, shape=self.shape, parts=self.parts, mode=self.mode,
                    shape_kind=SHAPE_KINDS.get(self.kind), numpy="a[%s]" % np_text(self.parts))


def np_text(parts):
    out = []
    for p in parts:
        if p[0] == "I":
            out.append(str(p[1]))
        elif p[0] == "E":
            out.append("...")
        else:
            s, e, st = p[1:4]
            t = "%s:%s" % ("" if s is None else s, "" if e is None else e)
            if st is not None:
                t += ":%d" % st
            out.append(t)
    return ",".join(out)


class Gen:
    def __init__(self):
        self.cases = []
        self.n = 0

    def add(self, level, bin_, op, family, shape, parts, mode, kind=0, queries=None, dyn=False, codes=None):
        self.n += 1
        cid = str(self.n)
        pt = M.fmt_parts_dyn(parts) if dyn else M.fmt_parts_packed(parts)
        if level == "ix":
            q = queries or []
            line = "%s %s %d %s %s %d%s" % (cid, op, kind, fmt_vec(shape), pt, len(q), "".join(" " + fmt_vec(x) for x in q))
        else:
            line = "%s %s %s %s" % (cid, op, fmt_vec(shape), pt)
        c = Case(cid=cid, level=level, bin=bin_, op=op, family=family, shape=list(shape), parts=list(parts), mode=mode,
                 kind=kind, queries=queries, line=line, dyn=dyn, codes=codes)
        self.cases.append(c)
        return c


# ---- generation ---------------------------------------------------------------------------------
def gen_single_index(g, maxn):
    """exhaustive single-axis grids at the index level, every encoding"""
    for n in range(1, maxn + 1):
        for code in M.RANGE_CODES:
            grid = list(M.axis_grid(code, n))
            for (s, e, st) in grid:
                part = [("R", s, e, st)]
                # reference first: packed, int parts, list<size_t> shape
                g.add("ix", "c05_ix_single", "p_%s_i" % code, "packed", [n], part, "single", 0)
                g.add("ix", "c05_ix_single", "p_%s_i" % code, "packed:array_shape", [n], part, "single", 1)
                g.add("ix", "c05_ix_single", "p_%s_i" % code, "packed:int_shape", [n], part, "single", 2)
                g.add("ix", "c05_ix_single", "p_%s_l" % code, "packed:ll", [n], part, "single", 0)
                g.add("ix", "c05_ix_dyn", "d_%s" % code, "list", [n], part, "single", 0, dyn=True)
        for (s, e, st) in M.axis_grid("a3", n):
            part = [("R", s, e, st)]
            g.add("ix", "c05_ix_single", "p_a3_i", "packed:array_part", [n], part, "single", 0)
            g.add("ix", "c05_ix_single", "p_a3_l", "packed:array_part_ll", [n], part, "single", 0)
            g.add("ix", "c05_ix_dyn", "d_a3", "list:array_part", [n], part, "single", 0, dyn=True)
            g.add("ix", "c05_ix_dyn", "d_a3_l", "list:array_part_ll", [n], part, "single", 0, dyn=True)
        for (s, e, st) in M.axis_grid("a2", n):
            part = [("R", s, e, st)]
            g.add("ix", "c05_ix_single", "p_a2_i", "packed:array_part", [n], part, "single", 0)
            g.add("ix", "c05_ix_dyn", "d_a2", "list:array_part", [n], part, "single", 0, dyn=True)
        for op in IX_EITHER:
            code = dyn_code(op)
            for (s, e, st) in M.axis_grid(code, n):
                g.add("ix", "c05_ix_either", op, "either", [n], [("R", s, e, st)], "single", 0, dyn=True)
        # a single integer on a 1-d shape (result has dimension 0)
        for i in range(-n, n):
            g.add("ix", "c05_ix_single", "p_I", "packed", [n], [("I", i)], "single", 0)


def gen_single_view(g, maxn, maxn_dyn):
    for n in range(1, maxn + 1):
        for code in M.RANGE_CODES:
            for (s, e, st) in M.axis_grid(code, n):
                g.add("v", "c05_v_single", "v_%s" % code, "view_packed", [n], [("R", s, e, st)], "single")
        for code in ("a3", "a2"):
            for (s, e, st) in M.axis_grid(code, n):
                part = [("R", s, e, st)]
                g.add("v", "c05_v_single", "v_%s" % code, "view_packed:array_part", [n], part, "single")
                if n <= maxn_dyn:
                    g.add("v", "c05_v_dyn", "d_%s" % code, "view_list:array_part", [n], part, "single", dyn=True)
        for op in V_DYN:
            if op in ("d_a3", "d_a2") or n > maxn_dyn:
                continue
            code = dyn_code(op)
            fam = "view_list" if op.startswith("d_") else "view_either"
            for (s, e, st) in M.axis_grid(code, n):
                g.add("v", "c05_v_dyn", op, fam, [n], [("R", s, e, st)], "single", dyn=True)
        for i in range(-n, n):
            g.add("v", "c05_v_single", "v_I", "view_packed", [n], [("I", i)], "single")
        # the variadic front end with one part: view::slice(a, range) is the CTAD case
        for op in ("vs_ii", "vs_iii"):
            code = VS_OPS[op][0]
            for (s, e, st) in M.axis_grid(code, n, margin=1, steps=[-2, -1, 1, 2]):
                g.add("v", "c05_v_single", op, "view_variadic", [n], [("R", s, e, st)], "variadic1")
        for i in range(-n, n):
            g.add("v", "c05_v_single", "vs_I", "view_variadic", [n], [("I", i)], "variadic")
        for op in ("vm_iii", "vm_nni", "vm_in"):
            code = VM_OPS[op][0]
            for (s, e, st) in M.axis_grid(code, n, margin=1, steps=[-2, -1, 1, 2]):
                g.add("v", "c05_v_single", op, "view_mutable", [n], [("R", s, e, st)], "mutable")


def multi_ops():
    """(level, binary, op, family, codes, dyn)"""
    out = []
    for op in MULTI2:
        out.append(("ix", "c05_ix_multi2", op, "packed", M.op_codes(op), False))
        out.append(("v", "c05_v_multi2", op, "view_packed", M.op_codes(op), False))
    for op in MULTI3:
        out.append(("ix", "c05_ix_multi3", op, "packed", M.op_codes(op), False))
        out.append(("v", "c05_v_multi3", op, "view_packed", M.op_codes(op), False))
    for op in MULTI3E:
        out.append(("ix", "c05_ix_multi3", op, "packed", M.op_codes(op), False))
        out.append(("v", "c05_v_multi3e", op, "view_packed", M.op_codes(op), False))
    out.append(("ix", "c05_ix_multi2", "m_E", "packed", ["E"], False))
    out.append(("v", "c05_v_single", "v_E", "view_packed", ["E"], False))
    for op, codes in VS_OPS.items():
        if len(codes) > 1:
            out.append(("v", "c05_v_single", op, "view_variadic", codes, False))
    for op, codes in VM_OPS.items():
        if len(codes) > 1:
            out.append(("v", "c05_v_single", op, "view_mutable", codes, False))
    return out


def gen_multi_sampled(g, rng, per_ix, per_v, maxext=4):
    for (level, bin_, op, fam, codes, dyn) in multi_ops():
        k = per_ix if level == "ix" else per_v
        for _ in range(k):
            shape, ext = M.assign_extents(rng, codes, maxdim=4 if len(codes) >= 4 else 3, maxext=maxext)
            parts = [M.random_part(rng, c, n if n is not None else 1) for c, n in zip(codes, ext)]
            mode = "mutable" if fam == "view_mutable" else "multi"
            kind = 0
            if level == "ix" and "E" not in codes and any(c != "I" for c in codes) and rng.random() < 0.3:
                kind = rng.choice([1, 2])
            elif level == "ix" and rng.random() < 0.15:
                kind = 2
            g.add(level, bin_, op, fam, shape, parts, mode, kind, codes=codes)

CANON_SHAPE = [3, 2, 4, 3, 2]


def canon_part(code, n, variant):
    """a part from the argument classes that are correct on the unchanged tree (in-range, forward, non-empty)"""
    if code == "I":
        return ("I", (0, -1, n - 1)[variant % 3])
    if code == "E":
        return ("E",)
    gs, ge, gst = M.given(code)
    return ("R", (variant % 2) if gs else None, n if ge else None, (1 + variant % 2) if gst else None)


def gen_multi_canonical(g):
    """every type pattern x every feasible source dimension with fixed healthy values: the structural part of the
    multi-axis space (which part kinds in which position, what the ellipsis stands for) is covered under every seed"""
    for (level, bin_, op, fam, codes, dyn) in multi_ops():
        k = sum(1 for c in codes if c != "E")
        dims = range(max(k, 1), (max(k, 3) if k < 3 else k + 1) + 1) if "E" in codes else [k]
        for dim in dims:
            for variant in range(3):
                shape = CANON_SHAPE[variant % 2:][:dim]
                _, ext = M.assign_extents(None, codes, dim=dim, shape=shape)
                parts = [canon_part(c, n, variant) for c, n in zip(codes, ext)]
                g.add(level, bin_, op, fam, shape, parts, "mutable" if fam == "view_mutable" else "multi", 0, codes=codes)
    # run-time either lists: every structure over {integer, range, ellipsis} of length 1..3(+ellipsis)
    todo = [("ix", "c05_ix_either", op, "either") for op in IX_EITHER] + [("v", "c05_v_dyn", op, "view_either") for op in V_DYN if op[0] == "e"]
    for (level, bin_, op, fam) in todo:
        code = dyn_code(op)
        for k in (1, 2, 3):
            for kinds in itertools.product(["I", code], repeat=k):
                for epos in [None] + list(range(k + 1)):
                    codes = list(kinds)
                    if epos is not None:
                        codes.insert(epos, "E")
                    for dim in ([k] if epos is None else range(k, 4)):
                        shape = CANON_SHAPE[:dim]
                        _, ext = M.assign_extents(None, codes, dim=dim, shape=shape)
                        parts = [canon_part(c, n, k + (epos or 0)) for c, n in zip(codes, ext)]
                        g.add(level, bin_, op, fam, shape, parts, "multi", 0, dyn=True, codes=codes)


def gen_dyn_multi_sampled(g, rng, per_ix, per_v, maxext=4):
    """run-time lists of either-typed parts: the structure (integers / ellipsis / ranges) is itself a run-time value"""
    todo = [("ix", "c05_ix_either", op, "either", per_ix) for op in IX_EITHER] + \
           [("v", "c05_v_dyn", op, "view_either", per_v) for op in V_DYN if op[0] == "e"]
    for (level, bin_, op, fam, k) in todo:
        code = dyn_code(op)
        for _ in range(k):
            dim = rng.randint(1, 3)
            nparts = rng.randint(1, dim)
            use_e = nparts < dim or rng.random() < 0.3
            codes = [rng.choice(["I", code, code]) for _ in range(nparts)]
            if use_e:
                codes.insert(rng.randint(0, len(codes)), "E")
            shape, ext = M.assign_extents(rng, codes, maxext=maxext, dim=dim)
            parts = [M.random_part(rng, c, n if n is not None else 1) for c, n in zip(codes, ext)]
            g.add(level, bin_, op, fam, shape, parts, "multi", 0, dyn=True, codes=codes)
    # plain lists (every part a range of the same type): one part per axis
    todo = [("ix", "c05_ix_dyn", op, "list", per_ix // 2) for op in IX_DYN] + \
           [("v", "c05_v_dyn", op, "view_list", per_v // 2) for op in V_DYN if op[0] == "d"]
    for (level, bin_, op, fam, k) in todo:
        code = dyn_code(op)
        for _ in range(k):
            dim = rng.randint(2, 3)
            codes = [code] * dim
            shape, ext = M.assign_extents(rng, codes, maxext=maxext, dim=dim)
            parts = [M.random_part(rng, c, n) for c, n in zip(codes, ext)]
            g.add(level, bin_, op, fam, shape, parts, "multi", 0, dyn=True, codes=codes)


def gen_multi2_exhaustive(g, exts_ix, exts_v):
    """thorough: every combination over two axes for the two-part patterns"""
    def axis_values(code, n):
        if code == "I":
            return [("I", i) for i in range(-n, n)]
        return [("R", s, e, st) for (s, e, st) in M.axis_grid(code, n, margin=1, steps=[-2, -1, 1, 2])]
    for (level, bin_, op, fam, codes, dyn) in multi_ops():
        if len(codes) != 2 or fam in ("view_variadic", "view_mutable"):
            continue
        exts = exts_ix if level == "ix" else exts_v
        if "E" in codes:
            other = [c for c in codes if c != "E"][0]
            for n in exts:
                for m in exts:
                    for dim in (1, 2):
                        shape = [n] if dim == 1 else ([n, m] if codes[1] == "E" else [m, n])
                        for v in axis_values(other, n):
                            parts = [v, ("E",)] if codes[1] == "E" else [("E",), v]
                            g.add(level, bin_, op, fam, shape, parts, "multi", 0, codes=codes)
            continue
        for n0 in exts:
            for n1 in exts:
                for v0 in axis_values(codes[0], n0):
                    for v1 in axis_values(codes[1], n1):
                        g.add(level, bin_, op, fam, [n0, n1], [v0, v1], "multi", 0, codes=codes)


HUGE_N = [2**24 - 1, 2**24, 2**24 + 1, 2**24 + 2, 2**24 + 3, 2**25 + 1, 2**26 + 3, 2**30 + 1, 2**31 - 2, 2**31 - 1, 2**31]
HUGE_N_LL = [2**31 + 1, 2**32 + 1, 2**40 + 1]
HUGE_STEPS = [1, 2, 3, 7, -1, -2, -3, 2**16 + 1, -(2**24 + 1)]


def huge_values(n):
    return [0, 1, 2, n // 2, n - 2, n - 1, n, n + 1, -1, -2, -(n // 2), -n, -n - 1]


def huge_queries(exp_len):
    return sorted({k for k in (0, 1, exp_len // 2, exp_len - 1) if 0 <= k < exp_len})


def gen_huge(g, rng, nsample):
    def emit(op, fam, n, s, e, st, kind=0, dyn=False):
        r = range(*slice(s, e, st).indices(n))
        q = [[k] for k in huge_queries(len(r))]
        g.add("ix", "c05_ix_single" if not dyn else "c05_ix_dyn", op, fam, [n], [("R", s, e, st)], "huge", kind, queries=q if q else None, dyn=dyn)

    imax = 2**31 - 1

    def fits(v):
        return v is None or -imax - 1 <= v <= imax
    for sfx, fam, ns in (("i", "packed", HUGE_N), ("l", "packed:ll", HUGE_N + HUGE_N_LL)):
        for n in ns:
            for code in M.RANGE_CODES:
                gs, ge, gst = M.given(code)
                for s in (huge_values(n) if gs else [None]):
                    for e in (huge_values(n) if ge else [None]):
                        for st in (HUGE_STEPS if gst else [None]):
                            if sfx == "i" and not (fits(s) and fits(e)):
                                continue
                            # INT_MIN as a bound (negating it is undefined behaviour in int arithmetic): keep only a few cases
                            if sfx == "i" and -imax - 1 in (s, e) and (gs and ge):
                                continue
                            # extent 2^31 does not fit the int-typed bounds' arithmetic: a few cases are enough
                            if sfx == "i" and n > imax and ((gs and s not in (0, -1)) or (ge and e not in (1, -1, n // 2))):
                                continue
                            # thin the full 3-component grid deterministically
                            if gs and ge and gst and ((s % 7) * 3 + (e % 5) + st) % 3:
                                continue
                            emit("p_%s_%s" % (code, sfx), fam, n, s, e, st)
    for n in HUGE_N[:8]:
        for s in huge_values(n):
            for e in huge_values(n):
                for st in HUGE_STEPS[:6]:
                    if (s + e + st) % 4:
                        continue
                    emit("d_a3_l", "list:array_part_ll", n, s, e, st, dyn=True)
                    if fits(s) and fits(e):
                        emit("d_iii", "list", n, s, e, st, dyn=True)
    # seeded samples on top of the deterministic grid
    for _ in range(nsample):
        n = rng.choice([rng.randint(2**24, 2**31), rng.randint(2**24, 2**26), rng.randint(2**31, 2**40)])
        code = rng.choice(M.RANGE_CODES)
        gs, ge, gst = M.given(code)

        def val():
            return rng.choice([rng.randint(-n - 2, n + 2), rng.choice(huge_values(n))])
        s = val() if gs else None
        e = val() if ge else None
        st = rng.choice(HUGE_STEPS + [rng.randint(2, 1000), -rng.randint(2, 1000)]) if gst else None
        sfx = "i" if (n <= imax and fits(s) and fits(e) and rng.random() < 0.5) else "l"
        emit("p_%s_%s" % (code, sfx), "packed" if sfx == "i" else "packed:ll", n, s, e, st)


# ---- evaluation ---------------------------------------------------------------------------------
def eval_index(c, toks):
    """-> (ok, symptom, signature, text)"""
    t = Tok(toks)
    t.expect("SH")
    sh = t.vec()
    t.expect("Q")
    nq = t.i()
    got = []
    for _ in range(nq):
        q = t.vec()
        src = t.vec()
        got.append((q, src))
    sig = (tuple(sh), tuple(tuple(s) for _, s in got))
    if c.mode == "huge":
        n = c.shape[0]
        s, e, st = c.parts[0][1:4]
        r = range(*slice(s, e, st).indices(n))
        if sh != [len(r)]:
            return False, "shape", sig, "result shape %s expected %s" % (sh, [len(r)])
        for q, src in got:
            if src != [r[q[0]]]:
                return False, "index", sig, "result index %s maps to source %s expected %s" % (q, src, [r[q[0]]])
        return True, None, sig, ""
    off = M.expected_offsets(c.shape, c.parts)
    if sh != list(off.shape):
        return False, "shape", sig, "result shape %s expected %s" % (sh, list(off.shape))
    for q, src in got:
        exp = M.unravel(int(off[tuple(q)]), c.shape)
        if src != exp:
            return False, "index", sig, "result index %s maps to source index %s expected %s" % (q, src, exp)
    if off.size and not got and off.size <= 10**6:
        return False, "index", sig, "no result index was mapped"
    return True, None, sig, ""


def eval_view(c, toks):
    """-> (ok, symptom, text); every route of emit_view_all is compared with NumPy"""
    t = Tok(toks)
    exp = M.expected_view(c.shape, c.parts)
    eshape = list(exp.shape)
    if toks and toks[0] == "OOB":
        t.s()
        dshape = t.vec()
        didx = t.vec()
        src = t.vec()
        if dshape != eshape:
            return False, "shape", "result shape %s expected %s (not evaluated: result index %s maps to source index %s outside shape %s)" % (
                dshape, eshape, didx, src, c.shape)
        return False, "oob", "result index %s maps to source index %s outside the source shape %s" % (didx, src, c.shape)
    t.expect("M")
    t.i()
    bad_shape = None
    bad_elem = None
    for route in ("V", "E", "C", "CB", "O", "OC"):
        if route == "OC" and t.peek() != "OC":
            continue        # (no supplied column-major output for 0-dim / oversized results)
        t.expect(route)
        if route == "CB":
            n = t.i()
            buf = [t.i() for _ in range(n)]
            if exp.ndim == 0:
                want = [int(exp)]
            else:
                want = exp.flatten("F").tolist()
            if exp.size > 0 and buf != want and not bad_elem:
                bad_elem = "column-major evaluated buffer is %s expected %s" % (buf[:24], want[:24])
            continue
        a = t.array()
        if a is None:
            if route in ("O", "OC") and exp.ndim == 0:
                continue
            if route == "C":
                continue
            bad_shape = bad_shape or "route %s produced Nothing, expected shape %s" % (route, eshape)
            continue
        if a.get("scalar"):
            if exp.ndim != 0:
                bad_shape = bad_shape or "route %s produced a scalar, expected shape %s" % (route, eshape)
            elif a["data"][0] != int(exp):
                bad_elem = bad_elem or "route %s scalar %s expected %s" % (route, a["data"][0], int(exp))
            continue
        if a["shape"] != eshape:
            bad_shape = bad_shape or "route %s has shape %s expected %s" % (route, a["shape"], eshape)
            continue
        if exp.ndim == 0:
            continue   # emit_array cannot read 0-d arrays; the CB route carries the element
        if a["data"] is not None and a["data"] != exp.flatten().tolist():
            bad_elem = bad_elem or "route %s elements %s expected %s" % (route, a["data"][:24], exp.flatten().tolist()[:24])
    if bad_shape:
        return False, "shape", bad_shape
    if bad_elem:
        return False, "elements", bad_elem
    return True, None, ""


def eval_mutable(c, toks):
    if toks and toks[0] == "OOB":
        return eval_view(c, toks)
    t = Tok(toks)
    t.expect("SH")
    sh = t.vec()
    t.expect("BUF")
    n = t.i()
    buf = [t.i() for _ in range(n)]
    size = int(np.prod(c.shape))
    lab = (np.arange(size, dtype=np.int64) + 100).reshape(c.shape)
    idx = M.np_index(c.parts)
    target = lab[idx]
    if sh != list(target.shape):
        return False, "shape", "mutable slice has shape %s expected %s" % (sh, list(target.shape))
    if target.ndim > 0:
        lab[idx] = (np.arange(target.size, dtype=np.int64) + 5000).reshape(target.shape)
    if buf != lab.flatten().tolist():
        return False, "elements", "source buffer after writing 5000+k through the slice is %s expected %s" % (buf[:24], lab.flatten().tolist()[:24])
    return True, None, ""


def ref_key_of(part, n):
    if part[0] == "I":
        return ("I", n, part[1])
    return ("R", n, part[1], part[2], part[3])


def part_extents(c):
    """extent of the source axis each part addresses (None for the ellipsis)"""
    k = sum(1 for p in c.parts if p[0] != "E")
    out = []
    pos = 0
    for p in c.parts:
        if p[0] == "E":
            out.append(None)
            pos += len(c.shape) - k
        else:
            out.append(c.shape[pos])
            pos += 1
    return out


PROBE_OPS = {"vs_nn": "nn", "vs_in": "in", "vs_ni": "ni", "vs_nni": "nni", "vs_ini": "ini", "vs_nii": "nii"}
PROBE_TEXT = """// C05 compile probe (generated): view::slice(a, one_range) where the range has None components
#include "c05_view.hpp"
%s
VH_MAIN()
""" % "\n".join("VS(%s, %s)" % (op, {v: k for k, v in M.ALIAS.items()}[code]) for op, code in PROBE_OPS.items())


# ---- slice parts given as COMPILE-TIME constants (tuple{ct<s>, ct<e>, ct<st>}, None where omitted): one instantiation per triple over a
#      reduced grid, executed over every extent 1..6 and the three shape kinds at the index level (normalisation of constant bounds)
CT_BOUNDS = [None, -9, -2, 1, 9]
CT_STEPS = [None, 1, 2, -1, -2]
CT_TRIPLES = [(s_, e_, st_) for s_ in CT_BOUNDS for e_ in CT_BOUNDS for st_ in CT_STEPS]


def ct_slice_text():
    def c(v):
        return "nm::None" if v is None else "nm::meta::ct<%d>{}" % v
    lines = ['// generated by vf/checks/c05.py: single range part with compile-time-constant components', '#include "c05_index.hpp"', ""]
    for k, (s_, e_, st_) in enumerate(CT_TRIPLES):
        lines.append("VH_OP(ct_%d) { auto kind = in.i(); auto shape = in.vec(); const auto part = nmtools_tuple{%s, %s, %s}; const auto slices = nmtools_tuple<std::remove_cv_t<decltype(part)>>{part}; "
                     "auto qs = read_queries(in); dispatch<1, 1>(out, kind, shape, slices, qs); }" % (k, c(s_), c(e_), c(st_)))
    lines += ["", "VH_MAIN()", ""]
    return "\n".join(lines)


def ct_slice_target():
    return B.Target("c05_ix_ct.cpp", "asan", text=ct_slice_text(), name="c05_ix_ct")


def gen_ct_index(g, maxn):
    for n in range(1, maxn + 1):
        for k, (s_, e_, st_) in enumerate(CT_TRIPLES):
            for kind in (0, 1, 2):
                c = g.add("ix", "c05_ix_ct", "ct_%d" % k, "packed:ct", [n], [("R", s_, e_, st_)], "single", kind)
                c.line = "%s ct_%d %d %s 0" % (c.cid, k, kind, fmt_vec([n]))


def probe_variadic(ctx, g, maxn):
    """view::slice(a, tuple{None, ...}) does not compile when the tuple of parts is copy-deduced (CTAD): the compilation
    outcome itself is the observation.  Returns the binary or None."""
    t = B.Target("c05_probe_variadic.cpp", "asan", text=PROBE_TEXT, name="c05_probe_variadic")
    res = B.build([t], quiet=True)[0]
    if res.error:
        err = res.error
        if "slice.hpp" in err and "error" in err:
            first = [ln for ln in err.splitlines() if "error" in ln][:2]
            ctx.violation("variadic:single_range",
                          "view::slice(a, tuple{None,None}) (one range part with None components) does not compile: %s" % " | ".join(first)[:400],
                          dict(source=PROBE_TEXT, compiler_output=err[-3000:], symptom="compile"))
            ctx.set("variadic_none_probe", "does not compile")
        else:
            ctx.inconc("compile probe for view::slice failed for an unrelated reason: %s" % err[-400:])
        return None
    ctx.set("variadic_none_probe", "compiles")
    for n in range(1, maxn + 1):
        for op, code in PROBE_OPS.items():
            for (s_, e_, st_) in M.axis_grid(code, n, margin=1, steps=[-2, -1, 1, 2]):
                g.add("v", "c05_probe_variadic", op, "view_variadic", [n], [("R", s_, e_, st_)], "variadic1")
    return res.binary


def run(ctx):
    quick = ctx.tier == "quick"
    rng = ctx.rng
    bins = build_or_fail(harness_targets(IX_BINS + V_BINS, "asan"))
    g = Gen()
    maxn = 6
    gen_single_index(g, maxn)
    gen_single_view(g, maxn, 4 if quick else maxn)
    gen_multi_canonical(g)
    if quick:
        gen_multi_sampled(g, rng, per_ix=60, per_v=40)
        gen_dyn_multi_sampled(g, rng, per_ix=40, per_v=60)
        gen_huge(g, rng, 0)
    else:
        gen_multi2_exhaustive(g, exts_ix=(1, 2, 3), exts_v=(1, 2))
        gen_multi_sampled(g, rng, per_ix=2500, per_v=800, maxext=5)
        gen_dyn_multi_sampled(g, rng, per_ix=800, per_v=800, maxext=5)
        gen_huge(g, rng, 20000)
    pb = probe_variadic(ctx, g, maxn)
    if pb:
        bins[("c05_probe_variadic", "asan")] = pb
    ctres = B.build([ct_slice_target()], quiet=True)[0]
    if ctres.error:
        ctx.inconc("generated translation unit c05_ix_ct (compile-time slice parts) does not compile: %s" % ctres.error[-600:])
    else:
        bins[("c05_ix_ct", "asan")] = ctres.binary
        gen_ct_index(g, maxn)

    # ---- execute + judge, one binary at a time (results are dropped after a binary is judged) ----
    by_bin = {}
    for c in g.cases:
        by_bin.setdefault(c.bin, []).append(c)
    results = {}
    crashed = {}
    hacc = HookAcc()
    ncrash = [0]
    sample_lines = []

    def execute(b):
        results.clear()
        crashed.clear()
        cs = by_bin[b]
        res, crashes, touts = R.run_cases(bins[(b, "asan")], [(c.cid, c.line) for c in cs], timeout=1800)
        results.update(res)
        for cr in crashes:
            crashed[cr.case_id] = cr
            ncrash[0] += 1
        for t_ in touts:
            ctx.inconc("timeout in case %s of %s" % (t_, b))
        for c in cs[:1] + [c for c in cs if c.mode == "multi"][:1] + [c for c in cs if c.mode == "huge"][:1]:
            if c.cid in results and len(sample_lines) < 8:
                sample_lines.append(dict(case=c.brief(), record=" ".join(split_hooks(results[c.cid])[0][:40])))

    # ---- judge --------------------------------------------------------------------------------
    REF = {}          # ("R", n, s, e, st) | ("I", n, i) -> ok   (packed reference encoding, index level)
    SINGLE = {}       # (level, op, ref_key) -> ok        (every single-axis case of every encoding)
    fail_classes = set()
    fam_fail_classes = {}
    stats = {}
    attributed = {"axis_class": 0, "own_key": 0}
    compared = [0]

    def stat(c, ok):
        k = "%s/%s/%s" % (c.level, c.family, c.mode)
        s_ = stats.setdefault(k, [0, 0])
        s_[0] += 1
        if not ok:
            s_[1] += 1

    def judge(c):
        """-> (ok, symptom, text) or None when no record exists"""
        if c.cid in crashed:
            return False, "crash", "process died: %s" % crashed[c.cid].kind()
        if c.cid not in results:
            return None
        toks, hooks = split_hooks(results[c.cid])
        hv = hacc.add(hooks)
        try:
            if toks and toks[0] in ("EXC", "ERR"):
                return False, "crash", "harness caught %s" % " ".join(toks[:3])[:160]
            if c.level == "ix":
                ok, sym, _, text = eval_index(c, toks)
            elif c.mode == "mutable":
                ok, sym, text = eval_mutable(c, toks)
            else:
                ok, sym, text = eval_view(c, toks)
        except (ValueError, IndexError) as e:
            return False, "malformed", "unparsable record %s: %s" % (" ".join(toks[:30]), e)
        if ok and hv:
            s_, v_, f0, f1 = hv[0]
            return False, "hook", "bounds hook %s: index %d outside extent %d" % (SITE_NAMES.get(s_, s_), f0, f1)
        return ok, sym, text

    def lvl(c):
        return "index" if c.level == "ix" else "view"

    def is_ref(c):
        return c.level == "ix" and c.mode == "single" and c.family == "packed" and c.kind == 0

    def is_single(c):
        return c.mode in ("single", "variadic1") or (c.mode in ("mutable", "variadic") and len(c.parts) == 1)

    nmissing = [0]

    # pass 1: the reference encoding (packed, int parts, list<size_t> shape), single axis
    def pass_ref(c):
        r = judge(c)
        if r is None:
            nmissing[0] += 1
            return
        ctx.ev()
        ok, sym, text = r
        stat(c, ok)
        n = c.shape[0]
        p = c.parts[0]
        REF[ref_key_of(p, n)] = ok
        if p[0] == "R":
            cl = M.axis_class(n, p[1], p[2], p[3])
            if len(range(*slice(p[1], p[2], p[3]).indices(n))) != 1 or "lo" in cl or "hi" in cl:
                ctx.seen(("ix", "packed", cl, n))
            if not ok:
                fail_classes.add(cl)
                ctx.violation("axis:" + cl, "index level, a[%s] on extent %d: %s (symptom: %s)" % (np_text(c.parts), n, text, sym),
                              dict(case=c.brief(), line=c.line, symptom=sym))
        else:
            ctx.seen(("ix", "packed", "int", n, p[1]))
            if not ok:
                ctx.violation("int:packed:%s" % ("neg" if p[1] < 0 else "pos"),
                              "index level, a[%d] on extent %d: %s (symptom: %s)" % (p[1], n, text, sym), dict(case=c.brief(), line=c.line, symptom=sym))

    # pass 2: the other single-axis cases.  A failure on a case the reference also fails is the same defect
    # (reported under axis:<class>); a failure where the reference is right is a divergence of that encoding.
    def pass_single(c):
        r = judge(c)
        if r is None:
            nmissing[0] += 1
            return
        ctx.ev()
        ok, sym, text = r
        stat(c, ok)
        n = c.shape[0]
        p = c.parts[0]
        rk = ref_key_of(p, n)
        ref = REF.get(rk)
        det = dict(case=c.brief(), line=c.line, symptom=sym)
        if c.mode == "variadic1":
            # view::slice(a, one_range) must behave like apply_slice(a, tuple{one_range})
            ctx.seen((c.level, c.family, c.op, n))
            if not ok and not (ref is False and c.bin == "c05_probe_variadic" and sym != "crash"):
                if ref is False and sym not in ("crash",):
                    attributed["axis_class"] += 1
                    return
                ctx.violation("variadic:single_range",
                              "view::slice(a, range) with a single range part, a[%s] on extent %d: %s (symptom: %s)" % (np_text(c.parts), n, text, sym), det)
            return
        SINGLE[(c.level, c.op, rk)] = ok
        if ref is not None:
            compared[0] += 1
        if p[0] == "R":
            cl = M.axis_class(n, p[1], p[2], p[3])
            ctx.seen((c.level, c.family, cl))
            if not ok:
                fam_fail_classes.setdefault(c.family, set()).add(cl)
        if ok:
            return
        if ref is False:
            attributed["axis_class"] += 1
            return
        attributed["own_key"] += 1
        if p[0] == "R":
            # the encodings with 64-bit signed parts share one cause: one key family
            kf = "ll_parts" if c.family.endswith("ll") else c.family
            ctx.violation("diverge:%s:%s" % (kf, cl),
                          "%s level, encoding %s (%s), a[%s] on extent %d: %s (symptom: %s); the packed int reference encoding is correct here" % (
                              lvl(c), c.family, c.op, np_text(c.parts), n, text, sym), det)
        else:
            ctx.violation("int:%s:%s" % (c.family, "neg" if p[1] < 0 else "pos"),
                          "%s level, %s, a[%d] on extent %d: %s (symptom: %s)" % (lvl(c), c.op, p[1], n, text, sym), det)

    # pass 3: huge extents and multi-axis cases; failures explained by a failing single-axis case are attributed to it
    def single_op_for(c, part):
        """the op whose single-axis grid exercises the same code for this part"""
        if c.dyn:
            return c.op
        if c.level == "v":
            return "v_I" if part[0] == "I" else "v_" + M.sig_to_code(part)
        return None

    def pass_other(c):
        r = judge(c)
        if r is None:
            nmissing[0] += 1
            return
        ctx.ev()
        ok, sym, text = r
        stat(c, ok)
        det = dict(case=c.brief(), line=c.line, symptom=sym)
        if c.mode == "huge":
            n = c.shape[0]
            p = c.parts[0]
            cl = M.axis_class(n, p[1], p[2], p[3])
            r_ = range(*slice(p[1], p[2], p[3]).indices(n))
            span = abs(r_.stop - r_.start) if len(r_) else 0
            rcl = "range_ge_2p24" if span >= 2**24 else "range_lt_2p24"
            ecl = "extent_ge_2p31" if n >= 2**31 else "extent_lt_2p31"
            ctx.seen(("huge", c.family, ecl, rcl, cl))
            if ok:
                return
            if cl in fail_classes or cl in fam_fail_classes.get(c.family, ()):
                attributed["axis_class"] += 1
                return
            attributed["own_key"] += 1
            ctx.violation("huge:%s:%s:%s" % (c.family, ecl, rcl),
                          "index level, extent %d, a[%s]: %s (symptom: %s)" % (n, np_text(c.parts), text, sym), det)
            return
        ecls = M.ellipsis_class(c.parts, len(c.shape))
        ctx.seen((c.level, c.family, c.op if not c.dyn else M.structure(c.parts), tuple(c.shape)))
        if ok:
            return
        tainted = False
        for p, n in zip(c.parts, part_extents(c)):
            if p[0] == "E":
                continue
            rk = ref_key_of(p, n)
            if REF.get(rk) is False or SINGLE.get((c.level, single_op_for(c, p), rk)) is False:
                tainted = True
                break
        if tainted:
            attributed["axis_class"] += 1
            return
        attributed["own_key"] += 1
        ctx.violation("multi:%s:%s" % (c.family, ecls),
                      "%s level, %s, a[%s] on shape %s: %s (symptom: %s; every part is correct on its own axis)" % (
                          lvl(c), c.op, np_text(c.parts), c.shape, text, sym), det)

    ORDER = ["c05_ix_single", "c05_v_single", "c05_ix_dyn", "c05_ix_either", "c05_v_dyn", "c05_probe_variadic"]
    for b in ORDER + sorted(k for k in by_bin if k not in ORDER):
        if b not in by_bin:
            continue
        execute(b)
        cs = by_bin.pop(b)
        for c in cs:
            if is_ref(c):
                pass_ref(c)
        for c in cs:
            if not is_ref(c) and is_single(c):
                pass_single(c)
        for c in cs:
            if not is_ref(c) and not is_single(c):
                pass_other(c)
    results.clear()
    ctx.set("crashes_contained", ncrash[0])
    missing = nmissing[0]
    if missing:
        ctx.inconc("%d cases produced no record" % missing)
    nfail = sum(v[1] for v in stats.values())
    ctx.rule = ("exhaustive single axis: extents 1..%d x start/stop in [-(n+2), n+2] or omitted x step in +-1..3 or omitted for the 12 packed "
                "None-patterns x {int, long long parts} x 3 shape kinds, index-array parts, 15 run-time list encodings and 12 either-list encodings "
                "(index level) and 14 packed + 10 run-time encodings (view level, 5 routes each); every multi-axis type pattern x feasible dimension with "
                "fixed values + %s multi-axis combinations over %d (level, type pattern) instantiations; deterministic huge-extent grid (2^24-1..2^40)%s. "
                "distinct = (level, encoding family, argument class | pattern, shape) tuples"
                % (maxn, "sampled" if quick else "exhaustive 2-axis (extents 1..3) + sampled 2..4-part", len(multi_ops()),
                   "" if quick else " + 20000 sampled huge cases"))
    ctx.exhaustive = False
    ctx.set("cases_by_level_family_mode", {k: {"cases": v[0], "failing": v[1]} for k, v in sorted(stats.items())})
    ctx.set("failing_cases", nfail)
    ctx.set("failing_axis_classes", len(fail_classes))
    ctx.set("failing_axis_class_list", sorted(fail_classes))
    ctx.set("axis_classes_total", len({M.axis_class(k[1], k[2], k[3], k[4]) for k in REF if k[0] == "R"}))
    ctx.set("failures_attributed", attributed)
    fams = {}
    for k in ctx.viol:
        f = k.split(":")[1]
        fams[f] = fams.get(f, 0) + 1
    ctx.set("violation_keys_by_kind", fams)
    ctx.set("all_violation_keys", sorted(ctx.viol))
    ctx.set("encoding_cases_compared_with_reference", compared[0])
    ctx.set("hook_events", hacc.summary())
    ctx.set("not_generated", ["index with fewer parts than axes and no ellipsis (a[1:3] on a 2-d array leaves the trailing extents 0: unchecked precondition)",
                              "integer part outside [-n, n)", "step 0"])
    if hacc.events.get(2, 0) == 0:
        ctx.inconc("view bounds hook never fired")
    for smp in sample_lines:
        ctx.sample(smp)
