"""C20: array objects keep their invariants under resize / write / copy / assign / cast; mutable views write through."""
import itertools

from .. import run as R
from .. import build as B
from ..util import Tok, split_hooks, build_or_fail, HookAcc, SITE_NAMES, fmt_vec
from .. import c20_gen as G
from .. import c20_model as M
from .. import c20_views as V

CLAIM = dict(
    technique="runtime monitoring: history driver over real array objects (generated TUs, one concrete class per configuration) in an "
              "ASan+UBSan+_GLIBCXX_ASSERTIONS build with NMTOOLS_VERIF bounds hooks; every step's observation through the public API is "
              "decided by an executable Python model",
    text="Runs operation histories (<=6 operations over resize(shape) in both call forms, element write, fill, copy construction, copy "
         "assignment, generic assignment, cast into the class, cast(kind) to the 15 ndarray kinds + fixed/hybrid/dynamic, cast<dtype>) on "
         "~50 concrete array classes: all 15 ndarray_t shape/buffer kinds in row- and column-major layout plus fixed_ndarray, hybrid_ndarray, "
         "dynamic_ndarray.  After every step both live objects are read back through dim()/shape()/strides()/size()/a(i...)/a(index array) and "
         "the raw buffer; the model decides product(shape)==size==len(buffer), strides vs shape, buffer cell of every index vs layout "
         "(distinct indices -> distinct cells), resize accepted iff representable, a refused resize leaves the whole observation unchanged, "
         "copies/assignments/casts reproduce shape and (converted) values and do not alias.  Mutable ref/reshape/flatten/slice views: a "
         "unique value is written through every index of every small shape and the set of changed source cells must be exactly the one "
         "NumPy addresses.  A deterministic core (every configuration x every small requested shape) is always run; the rest is seeded. "
         "Held-on-observed, not a proof.",
    note="Trusted: the Python model / NumPy, the sanitizer build, the harness' own odometer. Not covered: strides() of column-major "
         "arrays is by design the row-major stride vector (the baseline test asserts it) so layout is decided on the buffer, not on "
         "strides(); feature combinations that do not compile on the unchanged tree are listed in vf/c20_allow.py and reported as "
         "'unsupported' in the evidence; shapes with a zero extent and dim 0 are outside the quantifier; for negative-step slices the cell a view "
         "index addresses is slicing semantics (property C05), so by default only 'exactly one distinct cell per view index' is decided there "
         "(VERIF_C20_STRICT_NEG=1 also compares with NumPy; that holds on the tree with the C05 slicing fix).",
    ref="DESIGN.md 4/C20")


def _quick_targets():
    return [t for t, _ in G.targets("asan")] + V.targets("asan")


TARGETS_QUICK = [_quick_targets]

PROBE_SHAPES = [list(s) for d in (1, 2, 3) for s in itertools.product((1, 2, 3), repeat=d)] + \
               [[4], [6], [8], [12], [13], [2, 4], [4, 2], [3, 4], [4, 3], [2, 6], [5, 5], [1, 12], [2, 3, 2], [2, 2, 3], [4, 4, 4], [3, 4, 1]]


OPNAMES = {"R": "resize", "r": "resize", "q": "resize", "F": "fill", "W": "write", "C": "copy", "A": "assign", "G": "generic_assign",
           "M": "cast_into", "K": "cast_kind", "T": "cast_dtype"}


def init_shape(cfg):
    """shape of a default-constructed object (validated against the first observation)"""
    if cfg.const_shape is not None:
        return list(cfg.const_shape)
    if cfg.cls == "hybrid":
        d = cfg.dims[0]
        return [cfg.cap] + [1] * (d - 1)
    if cfg.cls == "dynamic":
        return []
    n = cfg.fixed_numel if cfg.fixed_numel is not None else 1
    if cfg.dims is not None and len(cfg.dims) == 1:
        return [1] * (cfg.dims[0] - 1) + [n]
    return [n]


class Gen:
    """history generator: keeps the expected model shape to produce valid indices"""

    def __init__(self, cfg, rng):
        self.cfg = cfg
        self.rng = rng
        self.rep = cfg.representable_shapes()
        self.rep_small = [s for s in self.rep if M.prod(s) <= 24] or self.rep
        self.kinds = [k for k in range(18) if (cfg.kinds_mask >> k) & 1]
        self.dtypes = [t for t in range(5) if (cfg.dtypes_mask >> t) & 1]
        self.nextbase = 100

    def base(self, n):
        b = self.nextbase
        self.nextbase += n + 3
        if self.nextbase > 4000:
            self.nextbase = 100
        return b

    def value(self):
        if self.cfg.elem == "double":
            return self.rng.randrange(0, 400) / 2.0
        return self.rng.randrange(-900, 4900)

    def rand_shape(self):
        r = self.rng.random()
        if r < 0.5 and self.rep_small:
            return list(self.rng.choice(self.rep_small))
        if r < 0.9:
            d = self.rng.randint(1, 3)
            return [self.rng.randint(1, 4) for _ in range(d)]
        return list(self.rng.choice(PROBE_SHAPES))

    def kind_ok(self, k, shape):
        """cast(kind::ndarray_ls_*) clips every extent at NMTOOLS_CAST_DEFAULT_CLIPPED_VALUE (6): larger extents are not representable"""
        if not shape:
            return False
        if k in (12, 13, 14) and max(shape) > 6:
            return False
        return True

    def random_history(self, maxlen=6):
        cfg, rng = self.cfg, self.rng
        self.nextbase = 100 + rng.randrange(0, 50)
        shape = init_shape(cfg)
        known = False
        steps = []
        nops = rng.randint(1, maxlen)
        ops = ["W", "W", "C", "A", "F"]
        if cfg.resizable:
            ops += ["R"] * 5
        if cfg.cls != "nd":
            ops += ["G"]
        if cfg.cast_into and self.rep_small:
            ops += ["M"]
        if self.kinds:
            ops += ["K", "K"]
        if self.dtypes:
            ops += ["T"]
        for _ in range(nops):
            op = rng.choice(ops)
            if not shape:
                # default-constructed dynamic_ndarray has no shape yet: give it one first
                s = list(rng.choice(self.rep_small))
                steps.append((rng.choice("Rrq"), s))
                shape = s
                steps.append(("F", self.base(M.prod(shape))))
                known = True
                continue
            if op == "T" and not known:
                op = "F"
            if op == "K":
                ks = [k for k in self.kinds if self.kind_ok(k, shape)]
                if not ks:
                    op = "W"
                else:
                    steps.append(("K", rng.choice(ks)))
                    continue
            if op == "R":
                s = self.rand_shape()
                steps.append((rng.choice("Rrq"), s))
                if cfg.representable(s) or cfg.cls == "dynamic":
                    shape = list(s)
                    known = False
                    if rng.random() < 0.8:
                        steps.append(("F", self.base(M.prod(shape))))
                        known = True
            elif op == "F":
                steps.append(("F", self.base(M.prod(shape))))
                known = True
            elif op == "G":
                steps.append(("G", self.base(M.prod(shape))))
                known = True
            elif op == "W":
                idx = [rng.randrange(e) for e in shape]
                steps.append(("W", idx, self.value()))
            elif op in ("C", "A"):
                steps.append((op,))
            elif op == "M":
                s = list(rng.choice(self.rep_small))
                steps.append(("M", s, self.base(M.prod(s))))
                shape = s
                known = True
            elif op == "T":
                steps.append(("T", rng.choice(self.dtypes)))
        return steps

    START_PRIORITY = {3: [[2, 3, 2], [2, 2, 2], [1, 2, 3], [1, 2, 2], [1, 1, 2]],
                      2: [[3, 4], [2, 4], [2, 3], [2, 2], [1, 4], [1, 2]],
                      1: [[6], [12], [8], [4], [3], [2]]}

    def start_shapes(self):
        cfg = self.cfg
        if not cfg.resizable:
            return [None]
        out = []
        for d in (3, 2, 1):
            for s in self.START_PRIORITY[d]:
                if cfg.representable(s):
                    out.append(s)
                    break
        for s in ([2, 2], [1, 2], [2], [1, 1, 2]):
            if cfg.representable(s) and s not in out:
                out.append(s)
                break
        return out

    def core(self):
        """deterministic histories: the same for every seed"""
        cfg = self.cfg
        out = []
        for st in self.start_shapes():
            pre = []
            if st is not None:
                pre = [("R", st), ("F", 100)]
                shape = st
            else:
                pre = [("F", 100)]
                shape = init_shape(cfg)
            out.append(list(pre))
            out.append(pre + [("C",), ("W", [e - 1 for e in shape], 7), ("A",), ("W", [0] * len(shape), 9)])
            if cfg.resizable:
                for s2 in PROBE_SHAPES:
                    for form in ("R", "r", "q"):
                        h = pre + [(form, s2)]
                        if cfg.representable(s2) or cfg.cls == "dynamic":
                            h += [("F", 300), ("C",)]
                        else:
                            h += [("C",)]
                        out.append(h)
            for k in self.kinds:
                if self.kind_ok(k, shape):
                    out.append(pre + [("K", k)])
            for t in self.dtypes:
                out.append(pre + [("T", t)])
            if cfg.cls != "nd":
                out.append(pre + [("G", 500), ("C",)])
        if cfg.cast_into:
            for s in self.rep_small[:40]:
                out.append([("M", s, 700), ("C",)])
        if cfg.resizable:
            # every representable small shape: resize + fill decides the buffer layout
            for s in self.rep_small[:60]:
                out.append([("R", s), ("F", 200)])
            if cfg.cls != "dynamic":
                # refused / accepted request as the very first operation on a default-constructed object
                for s2 in PROBE_SHAPES[::3]:
                    out.append([("R", s2)])
        return out


def encode(steps):
    toks = [str(len(steps))]
    for st in steps:
        op = st[0]
        if op in ("R", "r", "q"):
            toks += [op, fmt_vec(st[1])]
        elif op in ("F", "G"):
            toks += [op, str(st[1])]
        elif op == "W":
            toks += [op, fmt_vec(st[1]), repr(float(st[2]))]
        elif op in ("C", "A"):
            toks += [op]
        elif op == "M":
            toks += [op, fmt_vec(st[1]), str(st[2])]
        elif op in ("K", "T"):
            toks += [op, str(st[1])]
    return " ".join(toks)


def req_class(cfg, cur_shape, s):
    if cfg.dims is not None and len(s) not in cfg.dims:
        return "dim_not_representable"
    if len(s) != len(cur_shape):
        return "dim_change"
    return "same_dim"


class Decider:
    def __init__(self, ctx, stats):
        self.ctx = ctx
        self.stats = stats

    def viol(self, key, what, cfg, steps, k):
        self.ctx.violation(key, what + " [config %s = %s; history %s; step %d]" % (cfg.name, cfg.ctype, fmt_steps(steps), k),
                           dict(config=cfg.info(), history=[list(s) for s in steps], step=k))

    def check_inv(self, d, cfg, steps, k, opname, who, cls=None, layout=None, fixed_numel="cfg"):
        bad = M.invariants(d, cls or cfg.cls, layout or cfg.layout, cfg.fixed_numel if fixed_numel == "cfg" else fixed_numel)
        for sym, text in bad:
            self.viol("invariant:%s:%s" % (cfg.name, sym), "%s object after %s: %s" % (who, opname, text), cfg, steps, k)
        return not bad

    def match_model(self, d, m, cfg, steps, k, opname, who):
        """observation vs model object"""
        if d.shape != m.shape:
            self.viol("%s:%s:shape" % (opname, cfg.name), "%s object has shape %s, the model %s" % (who, d.shape, m.shape), cfg, steps, k)
            return False
        if d.elems is None:
            return True
        for p, (got, exp) in enumerate(zip(d.elems, m.cells)):
            if exp is not None and got != exp:
                self.viol("%s:%s:contents" % (opname, cfg.name), "%s object: element at C-position %d of shape %s reads %s, the model holds %s (all: %s vs %s)" % (
                    who, p, d.shape, got, exp, d.elems[:24], m.cells[:24]), cfg, steps, k)
                return False
        return True

    def decide(self, cfg, steps, t):
        """t: Tok over the record; returns number of steps decided"""
        ctx = self.ctx
        t.expect("X")
        dx = M.Dump(t)
        t.expect("Y")
        dy = M.Dump(t)
        exp0 = init_shape(cfg)
        if dx.shape != exp0 or dy.shape != exp0:
            self.viol("construct:%s:initial_shape" % cfg.name, "default-constructed object has shape %s, expected %s" % (dx.shape, exp0), cfg, steps, 0)
            return 0
        if not self.check_inv(dx, cfg, steps, 0, "construct", "default-constructed"):
            return 0
        if dx.etag != cfg.etag:
            raise ValueError("element tag %s != %s" % (dx.etag, cfg.etag))
        cur = M.Obj(dx.shape, [None] * M.prod(dx.shape) if dx.shape else [])
        oth = cur.copy()
        prev_x, prev_y = dx, dy
        for k, st in enumerate(steps, 1):
            if t.peek() == "HALT":
                raise ValueError("driver halted after step %d but the model saw no violation" % (k - 1))
            t.expect("|")
            op = t.s()
            if op != st[0]:
                raise ValueError("op echo %s != %s" % (op, st[0]))
            opname = OPNAMES[op]
            self.stats["ops"][opname] = self.stats["ops"].get(opname, 0) + 1
            res = t.s()
            castdump = None
            if op in ("K", "T") and res == "OK":
                castdump = M.Dump(t)
            t.expect("X")
            dx = M.Dump(t)
            t.expect("Y")
            dy = M.Dump(t)
            unchanged_other = True
            if op in ("R", "r", "q"):
                s = st[1]
                if res == "U":
                    self.stats["resize_unsupported_form"] += 1
                    if dx.key() != prev_x.key():
                        self.viol("resize:%s:not_called:state_changed" % cfg.name, "object changed without an operation", cfg, steps, k)
                        return k
                    continue
                ok = cfg.representable(s) or cfg.cls == "dynamic"
                cls_ = req_class(cfg, cur.shape, s)
                if res == "V":
                    res = "T"
                if ok and res != "T":
                    self.viol("resize:%s:representable:refused" % cfg.name, "resize(%s) on shape %s returned false although the class can represent it" % (s, cur.shape), cfg, steps, k)
                    return k
                if not ok and res != "F":
                    self.viol("resize:%s:unrepresentable:accepted" % cfg.name, "resize(%s) on shape %s returned true although the class cannot represent it (now %s)" % (s, cur.shape, dx.brief()), cfg, steps, k)
                    return k
                if not ok:
                    self.stats["resize_refused"] += 1
                    self.stats["refused_classes"].add((cfg.name, cls_))
                    if dx.key() != prev_x.key():
                        self.viol("resize:%s:refused:state_changed" % cfg.name,
                                  "resize(%s) returned false but changed the object: before %s; after %s" % (s, prev_x.brief(), dx.brief()), cfg, steps, k)
                        return k
                else:
                    self.stats["resize_accepted"] += 1
                    if dx.shape != s:
                        self.viol("resize:%s:accepted:shape" % cfg.name, "resize(%s) returned true, shape() is %s" % (s, dx.shape), cfg, steps, k)
                        return k
                    cur = M.Obj(s, [None] * M.prod(s))
            elif op == "F":
                n = M.prod(cur.shape)
                if res == "X" or int(res) != n:
                    self.viol("fill:%s:count" % cfg.name, "fill visited %s cells, the model has %d (shape %s; object %s)" % (res, n, cur.shape, dx.brief()), cfg, steps, k)
                    return k
                cur.cells = [st[1] + i for i in range(n)]
            elif op == "W":
                if res != "OK":
                    self.viol("write:%s:index_rejected" % cfg.name, "index %s not inside the reported shape %s (model %s)" % (st[1], dx.shape, cur.shape), cfg, steps, k)
                    return k
                cur.cells[M.flat_pos(cur.shape, st[1])] = to_elem(cfg, st[2])
            elif op in ("C", "A"):
                # the new object must reproduce the whole observation of the source (also cells the model does not know)
                src = prev_x
                oth = cur.copy()
                cur, oth = oth, cur
                if (dx.shape, dx.elems) != (src.shape, src.elems) or dx.strides != src.strides:
                    self.viol("%s:%s:differs_from_source" % (opname, cfg.name), "%s produced %s from %s" % (opname, dx.brief(), src.brief()), cfg, steps, k)
                    return k
                if dy.key() != src.key():
                    self.viol("%s:%s:source_changed" % (opname, cfg.name), "%s changed its source: %s -> %s" % (opname, src.brief(), dy.brief()), cfg, steps, k)
                    return k
                unchanged_other = None
            elif op == "G":
                if res != "OK":
                    raise ValueError("generic assign not executed: " + res)
                cur.cells = [st[1] + i for i in range(M.prod(cur.shape))]
            elif op == "M":
                if res == "U":
                    raise ValueError("cast-into not compiled in")
                cur = M.Obj(st[1], [st[2] + i for i in range(M.prod(st[1]))])
            elif op == "K":
                kid = st[1]
                if res == "U":
                    self.stats["cast_kind_unsupported"].add((cfg.name, M.KIND_NAMES[kid]))
                else:
                    self.stats["cast_kind"].add((cfg.name, M.KIND_NAMES[kid]))
                    kname = M.KIND_NAMES[kid]
                    kcls = kname if kname in ("fixed", "hybrid", "dynamic") else "nd"
                    base = "cast_kind:%s:%s" % (cfg.name, kname)
                    bad = M.invariants(castdump, kcls, "row", None)
                    for sym, text in bad[:1]:
                        self.viol(base + ":bad_result", "cast(a, kind::%s) of %s yields an object with %s" % (kname, prev_x.brief(), text), cfg, steps, k)
                    if not bad:
                        if castdump.shape != prev_x.shape or castdump.etag != prev_x.etag:
                            self.viol(base + ":shape", "cast(a, kind::%s) has shape %s / %s, the source %s / %s" % (kname, castdump.shape, castdump.etag, prev_x.shape, prev_x.etag), cfg, steps, k)
                        elif castdump.elems != prev_x.elems:
                            self.viol(base + ":values", "cast(a, kind::%s) holds %s, the source %s" % (kname, castdump.elems[:24], prev_x.elems[:24]), cfg, steps, k)
            elif op == "T":
                tid = st[1]
                tag = M.DTYPES[tid][0]
                if res == "U":
                    self.stats["cast_dtype_unsupported"].add((cfg.name, tag))
                else:
                    self.stats["cast_dtype"].add((cfg.name, tag))
                    base = "cast_dtype:%s:%s" % (cfg.name, tag)
                    bad = M.invariants(castdump, cfg.cls, cfg.layout, cfg.fixed_numel)
                    for sym, text in bad[:1]:
                        self.viol(base + ":bad_result", "cast<%s>(a) of %s yields an object with %s" % (tag, prev_x.brief(), text), cfg, steps, k)
                    if not bad:
                        exp = M.convert(prev_x.elems, cfg.etag, tag)
                        if castdump.etag != tag or castdump.shape != prev_x.shape:
                            self.viol(base + ":shape", "cast<%s>(a) has element type %s shape %s, the source shape %s" % (tag, castdump.etag, castdump.shape, prev_x.shape), cfg, steps, k)
                        elif castdump.elems != exp:
                            self.viol(base + ":values", "cast<%s>(a) holds %s, expected %s" % (tag, castdump.elems[:24], exp[:24]), cfg, steps, k)
            # ---- common checks after the step
            if op in ("K", "T") and dx.key() != prev_x.key():
                self.viol("%s:%s:source_changed" % (opname, cfg.name), "cast changed its source: %s -> %s" % (prev_x.brief(), dx.brief()), cfg, steps, k)
                return k
            if unchanged_other and dy.key() != prev_y.key():
                self.viol("%s:%s:other_object_changed" % (opname, cfg.name), "%s on one object changed another live object: %s -> %s" % (opname, prev_y.brief(), dy.brief()), cfg, steps, k)
                return k
            if not self.check_inv(dx, cfg, steps, k, opname, "current"):
                return k
            if not self.match_model(dx, cur, cfg, steps, k, opname, "current"):
                return k
            if not (cfg.cls == "dynamic" and dy.dim == 0):
                if not self.check_inv(dy, cfg, steps, k, opname, "other"):
                    return k
                if not self.match_model(dy, oth, cfg, steps, k, opname, "other"):
                    return k
            prev_x, prev_y = dx, dy
            self.stats["states"].add((cfg.name, tuple(cur.shape), opname))
        return len(steps)


def to_elem(cfg, v):
    return float(v) if cfg.elem == "double" else int(v)


def fmt_steps(steps):
    out = []
    for st in steps:
        if st[0] in ("R", "r", "q"):
            out.append("%s%s" % ({"R": "resize", "r": "resize...", "q": "resize<static_vector>"}[st[0]], tuple(st[1])))
        elif st[0] == "W":
            out.append("a%s=%s" % (tuple(st[1]), st[2]))
        elif st[0] == "M":
            out.append("cast_into%s" % (tuple(st[1]),))
        elif st[0] == "K":
            out.append("cast(kind::%s)" % M.KIND_NAMES[st[1]])
        elif st[0] == "T":
            out.append("cast<%s>" % M.DTYPES[st[1]][0])
        else:
            out.append({"F": "fill", "C": "copy", "A": "assign", "G": "generic_assign"}[st[0]])
    return "; ".join(out)


def run_histories(ctx):
    quick = ctx.tier == "quick"
    tgs = G.targets("asan")
    if not tgs:
        return 0
    bins = build_or_fail([t for t, _ in tgs])
    nrand = 300 if quick else 20000
    stats = dict(ops={}, resize_refused=0, resize_accepted=0, resize_unsupported_form=0, refused_classes=set(), states=set(),
                 cast_kind=set(), cast_kind_unsupported=set(), cast_dtype=set(), cast_dtype_unsupported=set())
    dec = Decider(ctx, stats)
    hacc = HookAcc()
    ncfg = 0
    nhist = 0
    ncrash = 0
    per_cfg = {}
    for tg, cfgs in tgs:
        binary = bins[(tg.name, "asan")]
        cases, meta = [], {}
        for cfg in cfgs:
            ncfg += 1
            g = Gen(cfg, ctx.rng)
            hs = g.core()
            ncore = len(hs)
            for _ in range(nrand):
                hs.append(g.random_history())
            per_cfg[cfg.name] = dict(core=ncore, random=nrand)
            for i, steps in enumerate(hs):
                cid = "%s.%d" % (cfg.name, i)
                cases.append((cid, "%s h_%s %s" % (cid, cfg.name, encode(steps))))
                meta[cid] = (cfg, steps)
        results, crashes, touts = R.run_cases(binary, cases)
        # a process death is attributed to the operation that was running: re-run the prefixes of the history
        pref, pmeta = [], {}
        for c in crashes:
            ncrash += 1
            if c.case_id not in meta:
                ctx.violation("crash:%s:outside_case" % tg.name, "runner died outside a case (%s): %s" % (c.kind(), c.stderr[-600:]), dict(stderr=c.stderr[-3000:]))
                continue
            cfg, steps = meta[c.case_id]
            for n in range(1, len(steps) + 1):
                pid_ = "%s#%d" % (c.case_id, n)
                pref.append((pid_, "%s h_%s %s" % (pid_, cfg.name, encode(steps[:n]))))
                pmeta[pid_] = (c, n)
        if pref:
            _, pcr, _ = R.run_cases(binary, pref, nbatch=min(B.JOBS, len(pref)))
            first = {}
            for pc in pcr:
                if pc.case_id in pmeta:
                    c0, n = pmeta[pc.case_id]
                    if c0.case_id not in first or n < first[c0.case_id][0]:
                        first[c0.case_id] = (n, pc)
            for c in crashes:
                if c.case_id not in meta:
                    continue
                cfg, steps = meta[c.case_id]
                n, pc = first.get(c.case_id, (len(steps), c))
                st = steps[n - 1]
                det = dict(config=cfg.info(), history=[list(x) for x in steps[:n]], stderr=pc.stderr[-3000:])
                what = "process died (%s) in the last operation of history %s on %s" % (pc.kind(), fmt_steps(steps[:n]), cfg.ctype)
                if st[0] == "K":
                    ctx.violation("cast_kind:%s:%s:bad_result" % (cfg.name, M.KIND_NAMES[st[1]]), what, det)
                elif st[0] == "T":
                    ctx.violation("cast_dtype:%s:%s:bad_result" % (cfg.name, M.DTYPES[st[1]][0]), what, det)
                else:
                    ctx.violation("%s:%s:crash" % (OPNAMES[st[0]], cfg.name), what, det)
        for tmo in touts:
            ctx.inconc("timeout in %s" % (tmo,))
        missing = 0
        for cid, line in cases:
            cfg, steps = meta[cid]
            if cid not in results:
                missing += 1
                continue
            toks, hooks = split_hooks(results[cid])
            ctx.ev()
            nhist += 1
            for (s, v, f0, f1) in hacc.add(hooks):
                if s in (0, 1, 2, 10):
                    ctx.violation("hook:%s:%s" % (cfg.name, SITE_NAMES.get(s, s)), "bounds hook %s saw index %d with bound %d in history %s" % (
                        SITE_NAMES.get(s, s), f0, f1, fmt_steps(steps)), dict(config=cfg.info(), history=[list(x) for x in steps]))
            if "EXC" in toks and toks[0] != "EXC":
                # an exception escaped from the library in the middle of the history: the step that was running is the last one begun
                k = toks[:toks.index("EXC")].count("|")
                st = steps[k - 1] if 1 <= k <= len(steps) else ("?",)
                ctx.violation("%s:%s:exception" % (OPNAMES.get(st[0], "history"), cfg.name), "exception %s in the last operation of %s on %s" % (
                    " ".join(toks[toks.index("EXC") + 1:][:1])[:120], fmt_steps(steps[:k]), cfg.ctype), dict(config=cfg.info(), history=[list(x) for x in steps[:k]]))
                continue
            if toks and toks[0] in ("EXC", "ERR"):
                ctx.violation("history:%s:exception" % cfg.name, "harness reported %s in %s" % (" ".join(toks[:4]), fmt_steps(steps)), dict(config=cfg.info(), history=[list(x) for x in steps]))
                continue
            try:
                done = dec.decide(cfg, steps, Tok(toks))
            except (ValueError, IndexError) as e:
                ctx.violation("history:%s:malformed" % cfg.name, "unparsable record (%s) for %s" % (e, fmt_steps(steps)), dict(config=cfg.info(), line=line[:400]))
                continue
            if done >= 2 or len(steps) >= 2:
                ctx.seen((cfg.name, encode(steps)))
            if len(ctx.samples) < 4 and len(steps) >= 4 and cid.split(".")[1] != "0":
                ctx.sample(dict(config=cfg.name, type=cfg.ctype, history=fmt_steps(steps)))
        if missing > len(crashes) + len(touts):
            ctx.inconc("%d histories of %s produced no record" % (missing - len(crashes), tg.name))
    ctx.set("configurations", ncfg)
    ctx.set("configuration_kinds", sorted({c.kind + ":" + c.layout for _, cs in tgs for c in cs}))
    ctx.set("histories", nhist)
    ctx.set("histories_per_configuration", dict(core=sum(v["core"] for v in per_cfg.values()), random_each=nrand))
    ctx.set("operations_executed", stats["ops"])
    ctx.set("resize_accepted", stats["resize_accepted"])
    ctx.set("resize_refused", stats["resize_refused"])
    ctx.set("refusal_classes_seen", len(stats["refused_classes"]))
    ctx.set("distinct_states", len(stats["states"]))
    ctx.set("cast_kind_pairs_executed", len(stats["cast_kind"]))
    ctx.set("cast_kind_pairs_unsupported_by_library", len(stats["cast_kind_unsupported"]))
    ctx.set("cast_dtype_pairs_executed", len(stats["cast_dtype"]))
    ctx.set("hook_events", hacc.summary())
    ctx.set("crashes_contained", ncrash)
    if stats["resize_refused"] == 0 or stats["resize_accepted"] == 0:
        ctx.inconc("no refused / accepted resize observed")
    if hacc.events.get(0, 0) == 0:
        ctx.inconc("ndarray bounds hooks never fired")
    return nrand


def run(ctx):
    import os
    only = os.environ.get("VERIF_C20_CONFIGS", "")
    if only:
        print("C20: RESTRICTED run (VERIF_C20_CONFIGS=%s): developer aid, not the claimed check" % only)
        ctx.set("restricted_to", only)
    nrand = run_histories(ctx)
    V.run_views(ctx)
    ctx.rule = ("histories: per configuration a deterministic core (start shapes x every probe shape (all dim 1..3 extents 1..3 + over-capacity / "
                "dimension-changing requests) x both resize forms, every cast kind / dtype, cast-into for every representable small shape, "
                "resize+fill of every representable small shape) plus %d seeded random histories of 1..6 operations (a resize may be followed by an "
                "auxiliary fill); both live objects are observed after every step. views: every (view kind, source class, source shape dim<=3 extents<=3, "
                "view argument) x every view index. distinct = distinct (configuration, encoded history) with >=2 steps + distinct view cases with >1 element" % nrand)
    ctx.exhaustive = False
