"""C11: statically inferred shape / size / bounds agree with every run-time instance."""
from .. import c09_run as CR

CLAIM = dict(
    technique="runtime monitoring of generated programs: static traits of every result type printed next to the run-time object; CLAMP / SVEC_CAPACITY hooks; sanitizers on",
    text="The generated programs of C09 (same generator, same binaries) print for every operand, lazy view, evaluated result and index-function result TYPE what the library claims statically (meta::fixed_shape_v / fixed_dim_v / fixed_size_v / bounded_dim_v / bounded_size_v where not an error type; constant values, clipped maxima, fixed and bounded lengths of index results) next to shape()/dim()/size()/values of the run-time object and of an independent NumPy reference; fixed_* must be equal, bounds must be >=. Types with run-time freedom (clipped / bounded / hybrid / dynamic operands) are run over every primary shape the type admits under its (small) bound plus seeded samples. The clipped_integer_t clamp hook and the static_vector capacity hook must report zero violations while results are built and evaluated. Composite view operations (view of a view of depth 2 and 3: reductions / accumulations / element-wise / rearranging views over enlarging (tile, repeat, pad, broadcast_to), shrinking (sum) and joining (concatenate, add) inner views) are part of every tier over the array kinds whose result storage is inferred as fixed or bounded, with run-time inner arguments; the evaluated result must also have the shape of the lazy view it was evaluated from (a result the inferred buffer did not take is a violation). A deterministic core (same under every seed) runs every two-argument shape-like index function (shape_tile, broadcast_shape, shape_broadcast_to, shape_reshape, shape_matmul, shape_outer, shape_expand_dims, shape_pad, free_axes) under all 16 ordered pairs of length classes (constant / fixed / tightly bounded static_vector / dynamic) once with the second argument longer and once shorter than the first, and tile / sum(tile) / slice(tile) over operands of bounded dimension (hs_*) with index arguments longer than that bound. The static traits of a view type are printed before the view is read, so they are compared with the reference even when reading the view throws. Held on the types and inputs observed (list in the evidence).",
    note="Trusted: NumPy / Python reference, NMTOOLS_VERIF hooks in def.hpp / utl/static_vector.hpp, the allow-list of C09. Compositions are depth 1 (view), depth 2-3 (the 14 composites of vf/c09_gen.py, G.COMPOSITES) and the evaluation of each; element type int; a composite carries keepdims as a compile-time constant (a run-time bool keepdims is not evaluable for any array kind).",
    ref="DESIGN.md 3, 4/C11")
TARGETS_QUICK = [CR.quick_targets_seed0]


def run(ctx):
    recs, info = CR.run_plan(ctx, ctx.tier, ctx.seed)
    cov = CR.judge_c11(ctx, recs, info)
    ctx.set("op_x_configuration_matrix", cov["matrix"])
    ctx.set("traits_checked", cov["traits_checked"])
    ctx.set("hook_events", cov["hook_events"])
    ctx.set("result_type_classes", cov["result_type_classes"])
    ctx.set("composites", cov["composites"])
    ctx.set("programs", info["programs"])
    ctx.set("binaries", info["binaries"])
    ctx.set("binaries_compiled_this_run", info["compiled"])
    ctx.set("build_s", info["build_s"])
    ctx.set("value_spaces", info["spaces"])
    ctx.set("cells_excluded_pending_triage", info.get("cells_excluded_pending_triage", {}))
    ctx.set("defect_families_observed", cov.get("families", {}))
    ctx.set("instances_cut_short_after_repeated_crashes", info.get("instances_cut_short_after_repeated_crashes", {}))
    ctx.set("crashes_contained", sum(1 for r in recs if r.crash is not None))
    ctx.rule = ("same programs and cases as C09; one evaluation = one (instance, value set) record whose static traits were compared; "
                "distinct = (operation, configuration kinds, argument values) whose result type carries static knowledge (constant / clipped / fixed / bounded) "
                "and whose values are not the baked ones, resp. views with more than one element")
    ctx.exhaustive = False
    if cov["composites"] and not any(c["view_larger_than_first_operand_capacity"] for c in cov["composites"].values()):
        ctx.inconc("no composite view was larger than the capacity of its innermost operand (the region the composites are there for)")
    if cov["traits_checked"] == 0:
        ctx.inconc("no static trait was compared")
    if cov["hook_events"]["clamp"] == 0 or cov["hook_events"]["svec_capacity"] == 0:
        ctx.inconc("the clamp / capacity hooks never fired (hooks not compiled in?)")
