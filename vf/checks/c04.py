"""C04: selecting / replicating / joining / generating views equal their reference result (NumPy, or the documented
nested-loop definitions for pad / resize / expand)."""
import itertools

import numpy as np

from .. import viewrun as V
from .. import c04_models as M
from ..util import all_shapes, fmt_vec, HookAcc, Tok, hexf

CLAIM = dict(
    technique="runtime monitoring: sanitizer-instrumented execution of every selecting/replicating/joining/generating view on label arrays, NumPy reference oracle (documented nested-loop definitions for pad/resize/expand, first validated against the shipped test vectors) over recorded (shape, dtype, every element)",
    text="tile, repeat, roll, take, compress, pad, resize, expand, sliding_window, concatenate, stack, hstack, vstack, dstack, column_stack, split, diagonal, diagflat, tril, triu, where, arange, linspace, eye, identity, tri, full/zeros/ones(_like) are executed on dynamic ndarrays carrying unique labels (distinct label ranges per operand, fill values outside every label range) for all source shapes of dim 1..3 extents 1..3 (thorough: dim 1..4 extents 1..4 plus sampled larger) and the quantifier's argument grids (reps/repeats 1..3, shifts in [-2n,2n] single and multi axis, pad widths 0..2 per side, index lists with negative and repeated entries, every valid positive/negative axis and None, integer and dyadic-real generator grids); shape, element type and every element read lazily through view(i...) are compared with the reference. ASan/UBSan/libstdc++ assertions and the bounds hooks watch the same executions. Held-on-observed.",
    note="Trusted: NumPy as the reference; the pad/resize/expand models (32 shipped vectors of the repository reproduce them); the harness' own odometer for element reads. Run-time argument kinds (nmtools_list<int>, int, None), plus compile-time axes (meta::ct_v<k>) for take / repeat / roll / concatenate / diagonal on a source of compile-time dimension 3 and on a dynamic source - the remaining kinds are C09's business; invalid arguments are C15's.",
    ref="DESIGN.md 4/C04")
HARNESS = ["c04_a", "c04_b", "c04_c", "c04_d", "c04_e", "c04_f", "c04_g", "c04_ct"]

# ops of harness/c04_ct.cpp: the same view with the axis given as a COMPILE-TIME constant (meta::ct_v<k>), on a source of compile-time
# dimension 3 (kind 0) and on a dynamic source (kind 1) -> reference / argument class of the run-time op
CT_ALIAS = {"take_ct": "take", "repeat_ct": "repeat", "roll_ct": "roll", "concatenate_ct": "concatenate", "diagonal_ct": "diagonal"}
CT_DIAG_PAIRS = [(0, 1), (1, 0), (0, 2), (2, 0), (1, 2), (-1, -2), (-2, -1), (0, -1), (-1, 0), (-3, -1)]
TARGETS_QUICK = [(h, "asan") for h in HARNESS]

BASE_A, BASE_B, BASE_C = 100, 500, 900
PAD_FILL, EXPAND_FILL, FULL_FILL = -7, -9, 42
MAX_EMIT = 20000          # vh::MAX_EMIT of harness/common.hpp


def labels(shape, base=BASE_A):
    n = int(np.prod(shape)) if len(shape) else 1
    return (np.arange(n) + base).reshape(shape).astype(np.int32)


def sgn(x):
    return "pos" if x > 0 else ("neg" if x < 0 else "zero")


def ax_class(ax):
    if ax is None:
        return "axnone"
    if isinstance(ax, int):
        return "axneg" if ax < 0 else "axpos"
    return "axneg" if any(a < 0 for a in ax) else "axpos"


def signs_class(vals):
    s = {sgn(v) for v in vals if v != 0}
    if not s:
        return "szero"
    return "s" + (s.pop() if len(s) == 1 else "mixed")


# ---------------------------------------------------------------------------------------------------------------
# parsing: the standard view record, tolerant of an exception thrown while a route was being emitted
def parse(toks):
    if "EXC" in toks and toks and toks[0] == "M":
        k = toks.index("EXC")
        rec = dict(M=None, V=None, E=None, C=None, CB=None, O=None, X=[], exc=" ".join(toks[k + 1:k + 3]), exc_in="V")
        t = Tok(toks[:k])
        try:
            t.expect("M")
            rec["M"] = t.i()
            t.expect("V")
            rec["V"] = t.array()
            if rec["V"] is not None and not rec["V"].get("scalar") and rec["V"]["data"] is not None \
                    and len(rec["V"]["data"]) != int(np.prod(rec["V"]["shape"])):
                raise IndexError
            rec["exc_in"] = "eval"
        except (ValueError, IndexError):
            rec["V"] = None
            rec["exc_in"] = "V"
        return rec
    return V.parse_view_record(toks)


PARSE = parse


# ---------------------------------------------------------------------------------------------------------------
# workload
def gen_cases(rng, tier):
    quick = tier == "quick"
    cases = []

    def add(op, args, **m):
        m.update(op=op, args=args)
        cases.append(m)

    def some(lst, k):
        """all of lst when it has <= k members, else a seeded sample of k"""
        lst = list(lst)
        return lst if len(lst) <= k else rng.sample(lst, k)

    small = list(all_shapes(3, 3, mindim=1))                      # 39 shapes: exhaustive core (both tiers)
    if quick:
        extra = rng.sample([s for s in all_shapes(4, 3, mindim=4)], 6) + \
            rng.sample([s for s in all_shapes(3, 4, mindim=1) if max(s) == 4], 6)
        big = []
        for _ in range(5):
            d = rng.randint(1, 4)
            big.append([rng.randint(1, 6) for _ in range(d)])
    else:
        extra = [s for s in all_shapes(4, 4, mindim=1) if s not in small]
        big = []
        for _ in range(200):
            d = rng.randint(1, 5)
            s = [rng.randint(1, 7) for _ in range(d)]
            if int(np.prod(s)) <= 240:
                big.append(s)
    shapes = small + extra + big
    W = 1 if quick else 3          # sampling width multiplier

    def axes_of(d):
        return list(range(-d, d))

    for s in shapes:
        d = len(s)
        core = s in small
        fs = fmt_vec(s)
        # ---- tile: reps 1..3 per axis, same / shorter / longer length
        for L in (d - 1, d, d + 1):
            if L < 1 or L > 4:
                continue
            allreps = list(itertools.product((1, 2, 3), repeat=L))
            for reps in some(allreps, (27 if core and L <= d else 4) * W):
                add("tile", "%s %s" % (fs, fmt_vec(reps)), shape=s, reps=list(reps))
        # ---- repeat
        for r in (1, 2, 3):
            add("repeat_none", "%s %d" % (fs, r), shape=s, repeats=r)
            for ax in axes_of(d):
                add("repeat", "%s %d %d" % (fs, r, ax), shape=s, repeats=r, axis=ax)
        for ax in axes_of(d):
            n = s[ax]
            allr = list(itertools.product((1, 2, 3), repeat=n))
            for rr in some(allr, (9 if core else 2) * W):
                add("repeat_l", "%s %s %d" % (fs, fmt_vec(rr), ax), shape=s, repeats=list(rr), axis=ax)
        # ---- roll: shifts in [-2n, 2n]
        for ax in axes_of(d):
            n = s[ax]
            for sh in (range(-2 * n, 2 * n + 1) if core or not quick else some(range(-2 * n, 2 * n + 1), 4)):
                add("roll", "%s %d %d" % (fs, sh, ax), shape=s, shift=sh, axis=ax)
        N = int(np.prod(s))
        flat_shifts = sorted(set([-2 * N, -N - 1, -N, -1, 0, 1, N - 1, N, N + 1, 2 * N] + some(range(-2 * N, 2 * N + 1), 4 * W)))
        for sh in flat_shifts:
            add("roll_none", "%s %d" % (fs, sh), shape=s, shift=sh)
        if d >= 2:
            pairs = [p for p in itertools.permutations(range(d), 2)]
            for p in some(pairs, (3 if core else 1) * W):
                n0, n1 = s[p[0]], s[p[1]]
                combos = [(a, b) for a in range(-2 * n0, 2 * n0 + 1) for b in range(-2 * n1, 2 * n1 + 1)]
                for (a, b) in some(combos, (6 if core else 2) * W):
                    axs = [x - d if rng.random() < 0.4 else x for x in p]
                    add("roll_l", "%s %s %s" % (fs, fmt_vec([a, b]), fmt_vec(axs)), shape=s, shift=[a, b], axis=axs)
                sh = rng.randint(-2 * min(n0, n1), 2 * min(n0, n1))
                axs = [x - d if rng.random() < 0.4 else x for x in p]
                add("roll_sl", "%s %d %s" % (fs, sh, fmt_vec(axs)), shape=s, shift=sh, axis=axs)
            if d == 3:
                n = max(s)
                sh3 = [rng.randint(-2 * n, 2 * n) for _ in range(3)]
                p3 = list(rng.choice(list(itertools.permutations(range(3)))))
                add("roll_l", "%s %s %s" % (fs, fmt_vec(sh3), fmt_vec(p3)), shape=s, shift=sh3, axis=p3)
        # one-axis lists, deterministic over the whole shift range (multi-axis form of the single-axis classes)
        if core:
            for ax in axes_of(d):
                n = s[ax]
                for sh in range(-2 * n, 2 * n + 1):
                    add("roll_l", "%s %s %s" % (fs, fmt_vec([sh]), fmt_vec([ax])), shape=s, shift=[sh], axis=[ax])
            # NumPy accepts a repeated axis (the shifts accumulate)
            for ax in range(d):
                n = s[ax]
                for (a, b) in some([(a, b) for a in range(-n, n + 1) for b in range(-n, n + 1)], 4):
                    add("roll_l", "%s %s %s" % (fs, fmt_vec([a, b]), fmt_vec([ax, ax])), shape=s, shift=[a, b], axis=[ax, ax])
        # ---- pad: widths 0..2 per side
        allw = list(itertools.product((0, 1, 2), repeat=2 * d))
        for w in some(allw, (81 if core and d <= 2 else 12) * W):
            add("pad", "%s %s %d" % (fs, fmt_vec(w), PAD_FILL), shape=s, pad_width=list(w), fill=PAD_FILL)
        # ---- take: index lists with negative and repeated entries
        for ax in axes_of(d):
            n = s[ax]
            lists = [[0], [n - 1], [-1], [-n], [0, 0], list(range(n - 1, -1, -1)), list(range(-1, -n - 1, -1)), [n - 1, -n, 0, -1]]
            if not core:
                lists = [list(range(n - 1, -1, -1)), [n - 1, -n, 0, -1]]
            for _ in range(W):
                L = rng.randint(1, 5)
                lists.append([rng.randint(-n, n - 1) for _ in range(L)])
                lists.append([rng.randint(0, n - 1) for _ in range(L)])
            for idx in lists:
                add("take", "%s %s %d" % (fs, fmt_vec(idx), ax), shape=s, indices=idx, axis=ax)
        lists = [[0], [N - 1], [-1], [-N], [0, 0, N - 1], list(range(N - 1, -1, -1))]
        for _ in range(3 * W):
            L = rng.randint(1, 6)
            lists.append([rng.randint(-N, N - 1) for _ in range(L)])
            lists.append([rng.randint(0, N - 1) for _ in range(L)])
        for idx in lists:
            add("take_none", "%s %s" % (fs, fmt_vec(idx)), shape=s, indices=idx)
        # ---- compress: every 0/1 condition of length 1..n (NumPy accepts a shorter condition)
        for ax in axes_of(d):
            n = s[ax]
            conds = [c for L in range(1, n + 1) for c in itertools.product((0, 1), repeat=L)]
            for c in some(conds, (10 if core else 3) * W):
                c = [x * rng.choice((1, 1, 2, -1)) for x in c] if rng.random() < 0.2 else list(c)
                add("compress", "%s %s %d" % (fs, fmt_vec(c), ax), shape=s, condition=c, axis=ax)
        conds = [[1] * N, [0] * N, [1], [0, 1], [k % 2 for k in range(N)], [(k + 1) % 2 for k in range(N)]]
        for _ in range(2 * W):
            conds.append([rng.randint(0, 1) for _ in range(rng.randint(1, N))])
        for c in conds:
            if len(c) <= N:
                add("compress_none", "%s %s" % (fs, fmt_vec(c)), shape=s, condition=c)
        # ---- resize (nearest neighbour): destination extents 1..5 per axis
        alld = list(itertools.product(range(1, 6), repeat=d))
        for ds in some(alld, (20 if core else 4) * W):
            add("resize", "%s %s" % (fs, fmt_vec(ds)), shape=s, dst_shape=list(ds))
        # ---- expand: spacing insertion
        for ax in axes_of(d):
            for sp in (0, 1, 2, 3):
                add("expand", "%s %d %d %d" % (fs, ax, sp, EXPAND_FILL), shape=s, axis=ax, spacing=sp, fill=EXPAND_FILL)
        subsets = [list(p) for L in range(1, d + 1) for c in itertools.combinations(range(d), L) for p in itertools.permutations(c)]
        for sub in some(subsets, (10 if core else 2) * W):
            for sp in (1, 2):
                axs = [x - d if rng.random() < 0.4 else x for x in sub]
                add("expand_l", "%s %s %d %d" % (fs, fmt_vec(axs), sp, EXPAND_FILL), shape=s, axis=axs, spacing=sp, fill=EXPAND_FILL)
            axs = [x - d if rng.random() < 0.4 else x for x in sub]
            sps = [rng.randint(0, 3) for _ in sub]
            add("expand_ll", "%s %s %s %d" % (fs, fmt_vec(axs), fmt_vec(sps), EXPAND_FILL), shape=s, axis=axs, spacing=sps, fill=EXPAND_FILL)
        # ---- sliding_window
        if d == 1:
            for w in range(1, s[0] + 1):
                add("sliding_window", "%s %d" % (fs, w), shape=s, window=w, axis=None)
        for ax in axes_of(d):
            for w in range(1, s[ax] + 1):
                add("sliding_window_ax", "%s %d %d" % (fs, w, ax), shape=s, window=w, axis=ax)
        allw = list(itertools.product(*[range(1, n + 1) for n in s]))
        for w in some(allw, (12 if core else 3) * W):
            add("sliding_window_l", "%s %s" % (fs, fmt_vec(w)), shape=s, window=list(w), axis=None)
        for _ in range((6 if core else 2) * W):
            L = rng.randint(1, min(3, d + 1))
            axs = [rng.randrange(d) for _ in range(L)]
            # successive windows over the same axis shrink it: keep the combination NumPy-valid
            rem = list(s)
            ws = []
            for a in axs:
                w = rng.randint(1, rem[a])
                rem[a] = rem[a] - w + 1
                ws.append(w)
            axv = [a - d if rng.random() < 0.3 else a for a in axs]
            add("sliding_window_ll", "%s %s %s" % (fs, fmt_vec(ws), fmt_vec(axv)), shape=s, window=ws, axis=axv)
        # ---- concatenate / stack family (second operand labelled from BASE_B)
        for ax in axes_of(d):
            for nb in some((1, 2, 3, 4), 4 if core else 2):
                s2 = list(s)
                s2[ax] = nb
                add("concatenate", "%s %s %d" % (fs, fmt_vec(s2), ax), shape=s, shape2=s2, axis=ax)
        for s2 in some(small, 4 if core else 1):
            add("concatenate_none", "%s %s" % (fs, fmt_vec(s2)), shape=s, shape2=s2)
        for ax in range(-(d + 1), d + 1):
            add("stack", "%s %s %d" % (fs, fs, ax), shape=s, shape2=s, axis=ax)
        # hstack: 1-d any lengths, otherwise equal except axis 1
        for nb in (1, 2, 3):
            s2 = list(s)
            s2[0 if d == 1 else 1] = nb
            add("hstack", "%s %s" % (fs, fmt_vec(s2)), shape=s, shape2=s2)
            # vstack: atleast_2d then axis 0
            if d >= 2:
                s2 = list(s)
                s2[0] = nb
                add("vstack", "%s %s" % (fs, fmt_vec(s2)), shape=s, shape2=s2)
            # dstack: atleast_3d then axis 2
            if d >= 3:
                s2 = list(s)
                s2[2] = nb
                add("dstack", "%s %s" % (fs, fmt_vec(s2)), shape=s, shape2=s2)
            # column_stack: 1-d -> column; then axis 1
            if d >= 2:
                s2 = list(s)
                s2[1] = nb
                add("column_stack", "%s %s" % (fs, fmt_vec(s2)), shape=s, shape2=s2)
        if d == 1:
            add("vstack", "%s %s" % (fs, fs), shape=s, shape2=s)
            add("column_stack", "%s %s" % (fs, fs), shape=s, shape2=s)
            # mixed dimensions (NumPy promotes the 1-d operand)
            for m in (1, 2, 3):
                add("vstack", "%s %s" % (fs, fmt_vec([m, s[0]])), shape=s, shape2=[m, s[0]])
                add("vstack", "%s %s" % (fmt_vec([m, s[0]]), fs), shape=[m, s[0]], shape2=s)
                add("column_stack", "%s %s" % (fs, fmt_vec([s[0], m])), shape=s, shape2=[s[0], m])
                add("column_stack", "%s %s" % (fmt_vec([s[0], m]), fs), shape=[s[0], m], shape2=s)
        if d <= 2:
            add("dstack", "%s %s" % (fs, fs), shape=s, shape2=s)
        # ---- split: equal sections / explicit indices; one case per produced part
        for ax in axes_of(d):
            n = s[ax]
            for sec in [k for k in range(1, n + 1) if n % k == 0]:
                for part in range(sec):
                    add("split_i", "%s %d %d %d" % (fs, sec, ax, part), shape=s, sections=sec, axis=ax, part=part)
            idxs = [list(c) for L in (1, 2) for c in itertools.combinations_with_replacement(range(0, n + 1), L)]
            for idx in some(idxs, (4 if core else 1) * W):
                for part in range(len(idx) + 1):
                    add("split_l", "%s %s %d %d" % (fs, fmt_vec(idx), ax, part), shape=s, indices=idx, axis=ax, part=part)
        # ---- diagonal / tril / triu
        if d >= 2:
            add("diagonal_default", fs, shape=s)
            axp = [(a, b) for a in axes_of(d) for b in axes_of(d) if (a - b) % d != 0]
            for (a1, a2) in some(axp, (8 if core else 2) * W):
                n1, n2 = s[a1], s[a2]
                for off in some(range(-n1 - 1, n2 + 2), (5 if core else 2)):
                    add("diagonal", "%s %d %d %d" % (fs, off, a1, a2), shape=s, offset=off, axis1=a1, axis2=a2)
            for k in range(-s[-2] - 1, s[-1] + 2):
                add("tril", "%s %d" % (fs, k), shape=s, k=k)
                add("triu", "%s %d" % (fs, k), shape=s, k=k)
        for k in (-2, -1, 0, 1, 2):
            if N <= 12:
                add("diagflat", "%s %d" % (fs, k), shape=s, k=k)
        # ---- where: operands broadcast against each other (x from BASE_B, y from BASE_C)
        def shrink(full):
            t = [1 if rng.random() < 0.35 else n for n in full]
            cut = rng.randint(0, len(t) - 1) if rng.random() < 0.3 else 0
            return t[cut:]
        variants = [(s, s, s)]
        for _ in range((4 if core else 1) * W):
            variants.append((shrink(s), shrink(s), shrink(s)))
        for (sc, sx, sy) in variants:
            nc = int(np.prod(sc))
            cond = [rng.choice((0, 1, 1, 0, 2, -1)) for _ in range(nc)]
            add("where", "%s %s %s %s" % (fmt_vec(sc), fmt_vec(cond), fmt_vec(sx), fmt_vec(sy)), shape=sc, condition=cond, shape2=sx, shape3=sy)
        # ---- full / zeros / ones and the _like forms
        add("full", "%s %d" % (fs, FULL_FILL), shape=s, fill=FULL_FILL)
        add("zeros", fs, shape=s)
        add("ones", fs, shape=s)
        add("full_like", "%s %d" % (fs, FULL_FILL), shape=s, fill=FULL_FILL)
        add("zeros_like", fs, shape=s)
        add("ones_like", fs, shape=s)

    # ---- generators without a source array
    R = 4 if quick else 6
    for start in range(-R, R + 1):
        for stop in range(-R - 1, R + 3):
            for step in (1, 2, 3, -1, -2, -3):
                add("arange3", "%d %d %d" % (start, stop, step), start=start, stop=stop, step=step)
            add("arange2", "%d %d" % (start, stop), start=start, stop=stop)
            for step in (0.25, 0.5, 0.75, 1.0, 1.5, 2.5, -0.5, -1.25):
                if quick and rng.random() < 0.5:
                    continue
                add("arange3f", "%d %d %s" % (start, stop, hexf(step)), start=start, stop=stop, step=step)
    for stop in range(0, 12):
        add("arange1", "%d" % stop, stop=stop)
    grid = [x / 4.0 for x in range(-8, 13)]
    pairs = [(a, b) for a in grid for b in grid]
    for (a, b) in some(pairs, 150 if quick else 441):
        for num in (0, 1, 2, 3, 4, 5, 8, 9):
            for ep in (0, 1):
                if quick and num > 1 and rng.random() < 0.6:
                    continue
                add("linspace_f", "%s %s %d %d" % (hexf(a), hexf(b), num, ep), start=a, stop=b, num=num, endpoint=ep)
    for a in range(-3, 4):
        for b in range(-3, 6):
            for num in (0, 1, 2, 3, 5, 9):
                for ep in (0, 1):
                    if quick and num > 1 and rng.random() < 0.5:
                        continue
                    add("linspace_i", "%d %d %d %d" % (a, b, num, ep), start=a, stop=b, num=num, endpoint=ep)
    Nmax = 4 if quick else 6
    for n in range(1, Nmax + 1):
        add("identity", "%d" % n, N=n)
        for k in range(-n - 1, n + 2):
            add("eye_n", "%d %d" % (n, k), N=n, k=k)
            add("tri_n", "%d %d" % (n, k), N=n, k=k)
        for m in range(1, Nmax + 1):
            for k in range(-n - 1, m + 2):
                add("eye", "%d %d %d" % (n, m, k), N=n, M=m, k=k)
                add("tri", "%d %d %d" % (n, m, k), N=n, M=m, k=k)
    # ---- compile-time axes: the constant-index branches of take / repeat / roll / concatenate / diagonal
    ct_shapes = [[2, 3, 4], [3, 2, 2], [1, 3, 2]] if quick else [list(t) for t in itertools.product((1, 2, 3), repeat=3)] + [[2, 3, 4], [4, 2, 3]]
    for s in ct_shapes:
        fs = fmt_vec(s)
        for kind in (0, 1):
            for ax in range(-3, 3):
                n = s[ax]
                idx = [rng.randrange(-n, n) for _ in range(rng.randint(1, 3))]
                add("take_ct", "%d %s %s %d" % (kind, fs, fmt_vec(idx), ax), shape=s, indices=idx, axis=ax, kind=kind)
                r = rng.randint(1, 3)
                add("repeat_ct", "%d %s %d %d" % (kind, fs, r, ax), shape=s, repeats=r, axis=ax, kind=kind)
                sh = rng.randint(-2 * n, 2 * n)
                add("roll_ct", "%d %s %d %d" % (kind, fs, sh, ax), shape=s, shift=sh, axis=ax, kind=kind)
            for ax in range(0, 3):
                s2 = list(s)
                s2[ax] = rng.randint(1, 3)
                add("concatenate_ct", "%d %s %s %d" % (kind, fs, fmt_vec(s2), ax), shape=s, shape2=s2, axis=ax, kind=kind)
            for a1, a2 in CT_DIAG_PAIRS:
                n1, n2 = s[a1], s[a2]
                offs = [o for o in range(-n1 + 1, n2)]
                for off in (offs if not quick else some(offs, 2)):
                    add("diagonal_ct", "%d %s %d %d %d" % (kind, fs, off, a1, a2), shape=s, offset=off, axis1=a1, axis2=a2, kind=kind)
    return cases


# ---------------------------------------------------------------------------------------------------------------
# reference
def _ax(a):
    return tuple(a) if isinstance(a, list) else a


def expected(m):
    """reference result of a valid case as a numpy array (raises for arguments NumPy rejects)."""
    op = m["op"]
    if op in CT_ALIAS:
        return expected(dict(m, op=CT_ALIAS[op]))
    a = labels(m["shape"]) if "shape" in m else None
    if op == "tile":
        return np.tile(a, m["reps"])
    if op in ("repeat", "repeat_l"):
        return np.repeat(a, m["repeats"], m["axis"])
    if op == "repeat_none":
        return np.repeat(a, m["repeats"])
    if op in ("roll", "roll_l", "roll_sl"):
        return np.roll(a, _ax(m["shift"]), _ax(m["axis"]))
    if op == "roll_none":
        return np.roll(a, m["shift"])
    if op == "pad":
        return M.pad_model(a, m["pad_width"], m["fill"])
    if op == "take":
        return np.take(a, m["indices"], m["axis"])
    if op == "take_none":
        return np.take(a, m["indices"])
    if op == "compress":
        return np.compress([bool(c) for c in m["condition"]], a, m["axis"])
    if op == "compress_none":
        return np.compress([bool(c) for c in m["condition"]], a)
    if op == "resize":
        return M.resize_model(a, m["dst_shape"])
    if op in ("expand", "expand_l", "expand_ll"):
        return M.expand_model(a, m["axis"], m["spacing"], m["fill"])
    if op in ("sliding_window", "sliding_window_ax", "sliding_window_l", "sliding_window_ll"):
        return M.sliding_window_ref(a, m["window"], m["axis"])
    if op in ("concatenate", "concatenate_none", "stack", "hstack", "vstack", "dstack", "column_stack"):
        b = labels(m["shape2"], BASE_B)
        if op == "concatenate":
            return np.concatenate((a, b), m["axis"])
        if op == "concatenate_none":
            return np.concatenate((a, b), None)
        if op == "stack":
            return np.stack((a, b), m["axis"])
        return getattr(np, op)((a, b))
    if op == "split_i":
        return np.split(a, m["sections"], m["axis"])[m["part"]]
    if op == "split_l":
        return np.split(a, m["indices"], m["axis"])[m["part"]]
    if op == "diagonal":
        return np.diagonal(a, m["offset"], m["axis1"], m["axis2"])
    if op == "diagonal_default":
        return np.diagonal(a)
    if op == "diagflat":
        return np.diagflat(a, m["k"])
    if op == "tril":
        return np.tril(a, m["k"])
    if op == "triu":
        return np.triu(a, m["k"])
    if op == "where":
        c = np.array(m["condition"], dtype=np.int32).reshape(m["shape"]) != 0
        return np.where(c, labels(m["shape2"], BASE_B), labels(m["shape3"], BASE_C))
    if op == "arange3":
        return np.arange(m["start"], m["stop"], m["step"], dtype=np.int32)
    if op == "arange2":
        return np.arange(m["start"], m["stop"], dtype=np.int32)
    if op == "arange1":
        return np.arange(m["stop"], dtype=np.int32)
    if op == "arange3f":
        return np.arange(m["start"], m["stop"], m["step"], dtype=np.float64).astype(np.float32)
    if op in ("linspace_f", "linspace_i"):
        return np.linspace(float(m["start"]), float(m["stop"]), m["num"], endpoint=bool(m["endpoint"]), dtype=np.float64)
    if op == "eye":
        return np.eye(m["N"], m["M"], m["k"], dtype=np.int32)
    if op == "eye_n":
        return np.eye(m["N"], None, m["k"], dtype=np.int32)
    if op == "identity":
        return np.identity(m["N"], dtype=np.int32)
    if op == "tri":
        return np.tri(m["N"], m["M"], m["k"], dtype=np.int32)
    if op == "tri_n":
        return np.tri(m["N"], None, m["k"], dtype=np.int32)
    if op == "full":
        return np.full(m["shape"], m["fill"], dtype=np.int32)
    if op == "zeros":
        return np.zeros(m["shape"], dtype=np.int32)
    if op == "ones":
        return np.ones(m["shape"], dtype=np.float32)
    if op == "full_like":
        return np.full_like(a, m["fill"])
    if op == "zeros_like":
        return np.zeros_like(a)
    if op == "ones_like":
        return np.ones_like(a, dtype=np.float32)
    raise KeyError(op)


EXPECT_TAG = {"ones": "f4", "ones_like": "f4", "arange3f": "f4", "linspace_f": "f4", "linspace_i": "f4"}


def argclass(m):
    """finite partition of the argument space, per operation (a function of the cause, never of sampled values)"""
    op = m["op"]
    if op in CT_ALIAS:
        return "%s:%s" % ("fixed_dim" if m.get("kind") == 0 else "dynamic", argclass(dict(m, op=CT_ALIAS[op])))
    if op == "tile":
        d, L = len(m["shape"]), len(m["reps"])
        return "replen_" + ("eq" if L == d else ("lt" if L < d else "gt"))
    if op in ("repeat", "repeat_l"):
        return ax_class(m["axis"])
    if op in ("roll", "roll_none", "roll_l", "roll_sl"):
        s = m["shape"]
        if op == "roll_none":
            n, sh, axc = int(np.prod(s)), [m["shift"]], "axnone"
            big = abs(m["shift"]) > n
        else:
            axs = m["axis"] if isinstance(m["axis"], list) else [m["axis"]]
            sh = m["shift"] if isinstance(m["shift"], list) else [m["shift"]] * len(axs)
            big = any(abs(x) > s[a] for x, a in zip(sh, axs))
            nrm = [a % len(s) for a in axs]
            axc = "axrep" if len(set(nrm)) < len(nrm) else ax_class(m["axis"])
        return "%s:%s:%s" % (axc, "gt_n" if big else "le_n", signs_class(sh))
    if op == "pad":
        return "w0" if not any(m["pad_width"]) else "w+"
    if op == "take":
        return "%s:%s" % (ax_class(m["axis"]), "idxneg" if any(i < 0 for i in m["indices"]) else "idxpos")
    if op == "take_none":
        return "axnone:%s" % ("idxneg" if any(i < 0 for i in m["indices"]) else "idxpos")
    if op in ("compress", "compress_none"):
        n = m["shape"][m["axis"]] if op == "compress" else int(np.prod(m["shape"]))
        c = "allfalse" if not any(m["condition"]) else ("short" if len(m["condition"]) < n else "full")
        return "%s:%s" % (ax_class(m.get("axis")), c)
    if op == "resize":
        up = any(t > n for t, n in zip(m["dst_shape"], m["shape"]))
        dn = any(t < n for t, n in zip(m["dst_shape"], m["shape"]))
        return "mixed" if up and dn else ("up" if up else ("down" if dn else "same"))
    if op in ("expand", "expand_l", "expand_ll"):
        sp = m["spacing"] if isinstance(m["spacing"], list) else [m["spacing"]]
        return "%s:%s" % (ax_class(m["axis"]), "sp0" if 0 in sp else "sp+")
    if op.startswith("sliding_window"):
        if op == "sliding_window_ll":
            nrm = [a % len(m["shape"]) for a in m["axis"]]
            if len(set(nrm)) < len(nrm):
                return "axrep"
        return ax_class(m["axis"])
    if op in ("concatenate", "stack"):
        return ax_class(m["axis"])
    if op in ("hstack", "vstack", "dstack", "column_stack"):
        d1, d2 = len(m["shape"]), len(m["shape2"])
        return "mixdim" if d1 != d2 else "dim%d" % d1
    if op == "split_i":
        return ax_class(m["axis"])
    if op == "split_l":
        n = m["shape"][m["axis"]]
        idx = m["indices"]
        strict = all(0 < i < n for i in idx) and all(x < y for x, y in zip(idx, idx[1:]))
        return "%s:%s" % (ax_class(m["axis"]), "strict" if strict else "emptypart")
    if op == "diagonal":
        n1, n2, off = m["shape"][m["axis1"]], m["shape"][m["axis2"]], m["offset"]
        empty = min(n1 + min(off, 0), n2 - max(off, 0)) <= 0
        return "%s:off%s:%s" % (ax_class([m["axis1"], m["axis2"]]), sgn(off), "empty" if empty else "nonempty")
    if op in ("diagflat", "tril", "triu", "eye", "eye_n", "tri", "tri_n"):
        c = "k" + sgn(m["k"])
        if op in ("tril", "triu"):
            c = "dim%d:%s" % (len(m["shape"]), c)
        return c
    if op == "where":
        return "same" if m["shape"] == m["shape2"] == m["shape3"] else "bcast"
    if op in ("arange3", "arange3f", "arange2", "arange1"):
        step = m.get("step", 1)
        start = m.get("start", 0)
        empty = (m["stop"] - start) * step <= 0
        return "step%s:%s" % (sgn(step), "empty" if empty else "nonempty")
    if op in ("linspace_f", "linspace_i"):
        return "num%s:%s" % (m["num"] if m["num"] <= 1 else "2+", "endpoint" if m["endpoint"] else "noendpoint")
    return "-"


def _float_compare(got, exp, m):
    """exact where the reference value is exactly representable in float32 (dyadic grids), else <= 4 ulp of the
    largest magnitude involved (cancellation near zero must not be measured against the tiny result)."""
    g = V.to_np(got)
    if g is None:
        return "result too large to emit"
    if list(g.shape) != list(exp.shape):
        return "shape %s expected %s" % (list(g.shape), list(exp.shape))
    e64 = np.asarray(exp, dtype=np.float64)
    g64 = g.astype(np.float64)
    mag = max([abs(float(m.get("start", 0))), abs(float(m.get("stop", 0)))] + [float(np.max(np.abs(e64))) if e64.size else 0.0])
    tol = 4 * float(np.spacing(np.float32(mag))) if mag > 0 else 0.0
    exact = e64.astype(np.float32).astype(np.float64) == e64
    step_exact = True
    if m["op"].startswith("linspace") and m["num"] > 1:
        div = m["num"] - 1 if m["endpoint"] else m["num"]
        st = (float(m["stop"]) - float(m["start"])) / div
        step_exact = float(np.float32(st)) == st
    for k in range(e64.size):
        gv, ev = g64.flat[k], e64.flat[k]
        if gv == ev:
            continue
        if exact.flat[k] and step_exact:
            return "element [%d] is %r expected exactly %r" % (k, gv, ev)
        if not (abs(gv - ev) <= tol):
            return "element [%d] is %r expected %r (tolerance %g)" % (k, gv, ev, tol)
    return None


def oracle(ctx, cr):
    m = cr.m
    op = m["op"]
    det = dict(case={k: v for k, v in m.items() if k != "args"}, line=cr.line)
    if op == "<exit>":
        if cr.crash is not None:
            ctx.violation("exit:fault", "runner died outside a case: %s" % cr.crash.kind(), dict(stderr=cr.crash.stderr[-2000:]))
        return
    ac = argclass(m)
    if cr.crash is not None:
        ctx.violation("%s:%s:value" % (op, ac), "%s %s died: %s" % (op, det["case"], cr.crash.kind()), dict(det, stderr=cr.crash.stderr[-3000:]))
        return
    if cr.timeout:
        ctx.inconc("timeout in %s" % det["case"])
        return
    if cr.rec is None:
        return
    if "error" in cr.rec:
        ctx.violation("%s:malformed_record" % op, cr.rec["error"][:300], det)
        return
    ctx.ev()
    try:
        exp = expected(m)
    except Exception as e:  # generator produced something NumPy rejects: a bug of the workload, never an alarm
        ctx.inconc("generator produced a case NumPy rejects: %s: %s" % (det["case"], e))
        return
    if exp.size > MAX_EMIT:
        return          # the harness does not print results beyond MAX_EMIT elements: nothing to compare
    if cr.rec.get("exc") and cr.rec.get("exc_in") == "V":
        ctx.violation("%s:%s:value" % (op, ac), "%s %s: exception %s while reading the view (NumPy shape %s)" % (op, det["case"], cr.rec["exc"], list(exp.shape)), det)
        return
    got = cr.rec["V"]
    if got is None:
        ctx.violation("%s:%s:nothing" % (op, ac), "%s %s returned Nothing for valid arguments (NumPy shape %s)" % (op, det["case"], list(exp.shape)), det)
        return
    if op in ("split_i", "split_l"):
        x = cr.rec.get("X") or []
        nparts = int(x[x.index("NP") + 1]) if "NP" in x else -1
        want = m["sections"] if op == "split_i" else len(m["indices"]) + 1
        if nparts != want:
            ctx.violation("%s:%s:nparts" % (op, ac), "%s %s produced %d parts, NumPy %d" % (op, det["case"], nparts, want), det)
            return
    if exp.dtype.kind == "f":
        why = _float_compare(got, exp, m)
    else:
        why = V.compare_np(got, exp)
    if not why:
        tag = EXPECT_TAG.get(op, "i4")
        if got["tag"] != tag:
            why = "dtype: element type %s expected %s" % (got["tag"], tag)
    if why:
        # symptom classes: shape | value (wrong element, or a fault / out-of-bounds access while an element is read) | dtype
        sym = "shape" if (why.startswith("shape") or "scalar" in why or "too large" in why) else ("dtype" if why.startswith("dtype") else "value")
        ctx.violation("%s:%s:%s" % (op, ac, sym), "%s %s: %s" % (op, det["case"], why), det)
    if exp.size > 1:
        ctx.seen((op, ac, tuple(m.get("shape", ())), str(sorted((k, str(v)) for k, v in m.items() if k not in ("op", "args", "shape")))))
    if exp.size > 3 and not why and len(ctx.samples) < 8 and ctx.rng.random() < 0.002:
        ctx.sample(dict(op=op, case=det["case"], result_shape=got.get("shape"), first_elements=(got.get("data") or [])[:8]))


def run(ctx):
    nvec, bad = M.validate_models()
    ctx.set("shipped_vectors_reproduced_by_models", nvec - len(bad))
    if bad or nvec < 20:
        ctx.inconc("pad/resize/expand/sliding_window models disagree with the shipped expectations (%d of %d): %s" % (len(bad), nvec, "; ".join(bad[:3])))
        return
    cases = gen_cases(ctx.rng, ctx.tier)
    acc = HookAcc()
    norec = 0
    ncrash = 0
    per_op = {}
    CHUNK = 30000          # records are judged and dropped chunk by chunk (a thorough run has ~4e5 cases)
    for k0 in range(0, len(cases), CHUNK):
        res = V.run_module_cases(HARNESS, cases[k0:k0 + CHUNK], "asan", parse=parse)
        for cr in res:
            op = cr.m["op"]
            for (site, f0, f1) in V.hook_problems(cr, acc):
                ctx.violation("%s:%s:value" % (op, argclass(cr.m) if op != "<exit>" else "-"),
                              "hook %s: index %d outside bound %d in %s" % (site, f0, f1, cr.line), dict(line=cr.line))
            oracle(ctx, cr)
            per_op[op] = per_op.get(op, 0) + 1
            ncrash += cr.crash is not None
            if cr.rec is None and cr.crash is None and not cr.timeout:
                norec += 1
        del res
    if norec:
        ctx.inconc("%d cases produced no record" % norec)
    ops = sorted({c["op"] for c in cases})
    ctx.rule = ("%d ops on label arrays; both tiers: every source shape of dim 1..3 extents 1..3 with the deterministic argument grids "
                "(reps/repeats 1..3, every shift in [-2n,2n] per axis, all pad widths 0..2 per side for dim<=2, every valid +/- axis and None, "
                "index lists with negative/repeated entries, every 0/1 condition, windows 1..n, offsets/k beyond both corners); quick adds 12 larger/dim-4 "
                "shapes + 5 sampled; thorough: all shapes dim 1..4 extents 1..4 + 200 sampled up to dim 5. "
                "distinct = (op, argument class, shape, arguments) whose reference has more than one element" % len(ops))
    ctx.set("hook_events", acc.summary())
    ctx.set("ops", ops)
    ctx.set("cases_per_op", per_op)
    ctx.set("cases_generated", len(cases))
    ctx.set("crashes_contained", int(ncrash))
    ctx.set("all_violation_keys", sorted(ctx.viol))
    if acc.events.get(2, 0) == 0:
        ctx.inconc("view index hook never fired")
