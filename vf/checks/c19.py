"""C19: the STL-free containers behave like their std:: counterparts over any history."""
import itertools
import os

from .. import build as B
from .. import run as R
from .. import c19_model as M
from ..util import split_hooks, harness_targets, build_or_fail

CLAIM = dict(
    technique="runtime monitoring: history driver applying every operation sequence to the utl:: container and to a std:: model side by side, "
              "counting allocator behind nmtools_malloc/free/memcpy (live set per history), counted element type (constructor/destructor registry), "
              "SVEC_CAPACITY / bounds hooks, ASan+UBSan build; valgrind memcheck on a sample in the thorough tier",
    text="26 container x element configurations: utl::vector, static_vector, array, tuple, tuplev2, maybe, either and small_vector (all-utl = NMTOOLS_DISABLE_STL "
         "configuration and default configuration) with int, double, a counted non-trivial type and utl::vector<int> as elements, plus vector<counted>, and scripted "
         "histories for vector<maybe<int>> / vector<either<int,double>>. Per configuration every operation sequence over a 13-19 symbol alphabet "
         "(default/sized/variadic/copy construct, assign other|self, push_back, resize 0..cap+2, write, destroy on two objects) of length 4 "
         "(5 for vector<int> and either<counted,int>; thorough: 5, and 6 for four configurations, 10^7 sequences of length 7 over a 10-symbol alphabet for vector/static_vector) "
         "is executed, plus 500 seeded random histories of length <= 60 (thorough 6000 of length <= 200): quick ~5.5e6 histories / 3.5e7 steps. After every step size, every "
         "specified element, has_value / active alternative of both objects are compared with a std:: model in the harness and, for the traced histories, with an "
         "independent Python model (copy independence, self-assignment, refusal at capacity with unchanged contents and SVEC_CAPACITY hook event); the counting "
         "allocator behind nmtools_malloc/free/memcpy (live set, double free, free of unknown pointer, memcpy outside its block), the constructor/destructor registry of "
         "the counted type and the bounds hooks are checked at every quiescent point. Held-on-observed, not a proof.",
    note="Cells created by a sized constructor or a growing resize are compared with T() for utl::vector (value-initialised like std::vector); for static_vector "
         "and small_vector such never-written cells are unspecified (stale after shrink/grow) and are neither read nor compared; "
         "raw storage of the objects is pre-filled (0x00, and 0xCD for scripted histories) so that use of unconstructed members is deterministic. "
         "Trusted: std:: containers / Python lists as the model, ASan/UBSan/valgrind, the counting allocator of harness/c19_hist.hpp.",
    ref="DESIGN.md 4/C19")
TARGETS_QUICK = [("c19_seq", "asan"), ("c19_sum", "asan"), ("c19_tup", "asan"), ("c19_vnt", "asan")]
HARNESSES = ["c19_seq", "c19_sum", "c19_tup", "c19_vnt"]

POISON = 205  # 0xCD
# histories are tiny: a small quarantine keeps the page-fault cost of millions of malloc/free pairs down
ENV = {"ASAN_OPTIONS": R.ENV_SAN["ASAN_OPTIONS"] + ":quarantine_size_mb=16"}

# name, element name, binary, harness kind, harness etype, family, model factory, primary, vec-holding (poison enumeration would crash on unconstructed members)
CONFIGS = [
    dict(cont="vector", et="int", bin="c19_seq", kind=0, etc=0, family="seq", mk="vec", primary=True, deep=True, deepq=True),
    dict(cont="vector", et="double", bin="c19_seq", kind=0, etc=1, family="seq", mk="vec"),
    dict(cont="static_vector", et="int", bin="c19_seq", kind=1, etc=0, family="seq", mk="svec", primary=True, deep=True),
    dict(cont="static_vector", et="double", bin="c19_seq", kind=1, etc=1, family="seq", mk="svec"),
    dict(cont="small_vector_utl", et="int", bin="c19_seq", kind=2, etc=0, family="seq", mk="smallu", primary=True),
    dict(cont="small_vector_utl", et="double", bin="c19_seq", kind=2, etc=1, family="seq", mk="smallu"),
    dict(cont="small_vector", et="int", bin="c19_seq", kind=3, etc=0, family="seq", mk="smalld"),
    dict(cont="small_vector", et="double", bin="c19_seq", kind=3, etc=1, family="seq", mk="smalld"),
    dict(cont="array", et="int", bin="c19_seq", kind=4, etc=0, family="seq", mk="arr"),
    dict(cont="array", et="double", bin="c19_seq", kind=4, etc=1, family="seq", mk="arr"),
    dict(cont="vector", et="counted", bin="c19_vnt", kind=0, etc=0, family="seq", mk="vec", ak="vnt"),
    dict(cont="vector", et="maybe_int", bin="c19_vnt", kind=0, etc=1, family="seq", mk="vec", ak="vnt"),
    dict(cont="vector", et="either_int_double", bin="c19_vnt", kind=0, etc=2, family="seq", mk="vec", ak="vnt"),
    dict(cont="maybe", et="int", bin="c19_sum", kind=0, etc=0, family="maybe", eks=("int",)),
    dict(cont="maybe", et="double", bin="c19_sum", kind=0, etc=1, family="maybe", eks=("double",)),
    dict(cont="maybe", et="counted", bin="c19_sum", kind=0, etc=2, family="maybe", eks=("counted",), primary=True, deep=True),
    dict(cont="maybe", et="vector_int", bin="c19_sum", kind=0, etc=3, family="maybe", eks=("vec",), primary=True),
    dict(cont="either", et="int_double", bin="c19_sum", kind=1, etc=0, family="either", eks=("int", "double")),
    dict(cont="either", et="counted_int", bin="c19_sum", kind=1, etc=1, family="either", eks=("counted", "int"), primary=True, deep=True, deepq=True),
    dict(cont="either", et="int_counted", bin="c19_sum", kind=1, etc=2, family="either", eks=("int", "counted")),
    dict(cont="either", et="vector_int", bin="c19_sum", kind=1, etc=3, family="either", eks=("vec", "int"), primary=True),
    dict(cont="either", et="int_vector", bin="c19_sum", kind=1, etc=4, family="either", eks=("int", "vec")),
    dict(cont="tuple", et="int_double_int", bin="c19_tup", kind=0, etc=0, family="tuple", eks=("int", "double", "int"), conv=True),
    dict(cont="tuple", et="counted_int_vector", bin="c19_tup", kind=0, etc=1, family="tuple", eks=("counted", "int", "vec"), conv=False),
    dict(cont="tuplev2", et="int_double_int", bin="c19_tup", kind=1, etc=0, family="tuple", eks=("int", "double", "int"), conv=True),
    dict(cont="tuplev2", et="counted_int_vector", bin="c19_tup", kind=1, etc=1, family="tuple", eks=("counted", "int", "vec"), conv=False),
]

SCRIPTED_VNT = [
    [(1, 0, 0), (6, 0, 0), (6, 0, 0), (4, 1, 0), (8, 1, 0), (5, 0, 1)],   # push_back into malloc'ed cells
    [(2, 0, 3), (8, 0, 0), (8, 0, 1), (8, 0, 2), (4, 1, 0)],               # sized construction, then first writes
    [(3, 0, 2), (4, 1, 0), (6, 1, 0), (5, 0, 1)],                          # variadic construction, copy
    [(1, 0, 0), (1, 1, 0), (5, 0, 1), (0, 0, 0)],                          # empty vectors only: must be harmless
    [(2, 0, 3), (4, 1, 0)],                                                # copy of cells nobody wrote (std: value-initialised)
]

PY_DERIVABLE = {"size", "has_value", "alternative", "element", "alias", "leak", "leak_block0", "object_leak", "object_missing",
                "capacity_hook_silent", "capacity_hook_unexpected"}
CROSS = {"push_back_cross": "push_back", "resize_cross": "resize_grow"}


def model_of(c):
    f = c["family"]
    if f == "seq":
        return M.SeqModel(c["mk"], c["et"])
    if f == "maybe":
        return M.MaybeModel(c["eks"][0])
    if f == "either":
        return M.EitherModel(*c["eks"])
    return M.TupleModel(c["eks"], c["conv"])


def cname(c):
    return "%s<%s>" % (c["cont"], c["et"])


def fmt_steps(steps):
    return "%d %s" % (len(steps), " ".join("%d %d %d" % s for s in steps)) if steps else "0"


def hist_line(c, fill, steps):
    return "hist %d %d %d %s" % (c["kind"], c["etc"], fill, fmt_steps(steps))


def enum_line(c, fill, alpha, prefix, depth):
    return "enum %d %d %d %s %s %d" % (c["kind"], c["etc"], fill, fmt_steps(alpha), fmt_steps(prefix), depth)


def plan_enum(alpha, depth, per_case=6000):
    """prefix length p such that a case enumerates at most per_case histories"""
    p = 0
    while len(alpha) ** (depth - p) > per_case and p < depth:
        p += 1
    return p


class Acc:
    """evidence accumulated per configuration"""

    def __init__(self):
        self.hist_enum = 0
        self.hist_traced = 0
        self.steps = 0
        self.states = 0
        self.allocs = 0
        self.frees = 0
        self.memcpys = 0
        self.cap_events = 0
        self.cap_refused = 0
        self.at_events = 0
        self.obj_ctor = 0
        self.obj_dtor = 0
        self.harness_err = 0
        self.unspecified = 0
        self.opclasses = {}
        self.crashes = 0

    def add_ag(self, t, traced):
        # AG hist steps states allocs frees memcpys cap_events cap_refused at_events obj_ctor obj_dtor harness_err undefined crossings OC ...
        i = t.index("AG")
        v = [int(x) for x in t[i + 1:i + 15]]
        if traced:
            self.hist_traced += v[0]
        else:
            self.hist_enum += v[0]
        self.steps += v[1]
        self.states += v[2]
        self.allocs += v[3]
        self.frees += v[4]
        self.memcpys += v[5]
        self.cap_events += v[6]
        self.cap_refused += v[7]
        self.at_events += v[8]
        self.obj_ctor += v[9]
        self.obj_dtor += v[10]
        self.harness_err += v[11]
        j = i + 15
        if t[j] != "OC":
            raise ValueError("OC expected")
        n = int(t[j + 1])
        j += 2
        for _ in range(n):
            self.opclasses[t[j]] = self.opclasses.get(t[j], 0) + int(t[j + 1])
            j += 2
        if t[j] != "KS":
            raise ValueError("KS expected")
        n = int(t[j + 1])
        j += 2
        ks = []
        for _ in range(n):
            cls, sym, cnt, fill, nw = t[j], t[j + 1], int(t[j + 2]), int(t[j + 3]), int(t[j + 4])
            j += 5
            wit = [(int(t[j + 3 * q]), int(t[j + 3 * q + 1]), int(t[j + 3 * q + 2])) for q in range(nw)]
            j += 3 * nw
            ks.append((cls, sym, cnt, fill, wit))
        return ks


def split_trace(t):
    """tokens of a hist record -> (list of record token lists, tail tokens after |E)"""
    if not t or t[0] != "T":
        raise ValueError("no trace")
    e = t.index("|E")
    groups = []
    cur = None
    for tok in t[1:e]:
        if tok == "|":
            cur = []
            groups.append(cur)
        else:
            cur.append(tok)
    return groups, t[e + 1:]


def parse_group(g, ns=2):
    k = int(g[0])
    cls = g[1]
    if g[2] != ";":
        raise ValueError("; expected")
    i = 3
    states = []
    for _ in range(ns):
        j = g.index(";", i)
        states.append(g[i:j])
        i = j + 1
    nums = [int(x) for x in g[i:i + 7]]
    rest = g[i + 7:]
    extras = [x for x in rest if not x.startswith("!")]
    syms = [x[1:] for x in rest if x.startswith("!")]
    return k, cls, states, nums, extras, syms


def check_traced(ctx, c, steps, fill, toks, acc, memcheck=False):
    """compare one traced history with the Python model; returns True if a symptom was reported"""
    groups, tail = split_trace(toks)
    acc.add_ag(tail, True)
    model = model_of(c)
    recs = model.run(steps)
    refine = c["family"] == "seq" and c["mk"] == "vec"
    excess_prev = 0
    objdiff_prev = 0
    name = cname(c)
    det = dict(container=name, fill=fill, steps=steps)
    for j, g in enumerate(groups):
        k, cls, states, (n0, npos, bound, objl, objm, dv, dr), extras, csyms = parse_group(g)
        if j >= len(recs):
            ctx.inconc("%s: harness executed more steps than the model for %s" % (name, steps))
            return True
        r = recs[j]
        acc.unspecified += sum(s.count("u") for s in states)
        if CROSS.get(cls, cls) != r.cls or k != r.k:
            ctx.inconc("%s: harness and Python model disagree on the class of step %d of %s: %s vs %s" % (name, j, steps, cls, r.cls))
            return True
        if bound != r.bound or objm != r.objs or (dr > 0) != (r.refused > 0):
            ctx.inconc("%s: C++ model and Python model disagree at step %d of %s (bound %d/%d, objects %d/%d, refused %d/%d)" % (
                name, j, steps, bound, r.bound, objm, r.objs, dr, r.refused))
            return True
        psyms = set()
        for s in range(len(states)):
            if states[s] != r.states[s]:
                if s != r.target:
                    psyms.add("alias")
                elif states[s][:1] != r.states[s][:1]:
                    psyms.add(model.first_name)
                else:
                    psyms.add("element")
                break
        excess = max(0, n0 + npos - r.bound)
        if excess > excess_prev:
            psyms.add("leak_block0" if (refine and npos <= r.bound) else "leak")
        excess_prev = excess
        objdiff = objl - r.objs
        if objdiff > objdiff_prev:
            psyms.add("object_leak")
        elif objdiff < objdiff_prev and objdiff < 0:
            psyms.add("object_missing")
        objdiff_prev = objdiff
        if (dv > 0) != (r.refused > 0):
            psyms.add("capacity_hook_silent" if r.refused > 0 else "capacity_hook_unexpected")
        cs = set(csyms)
        if "assign_unconstructed" in cs:
            psyms.discard("object_missing")   # same cause, reported once (as in the C++ side)
        if psyms != (cs & PY_DERIVABLE):
            ctx.inconc("%s: C++ verdict %s and Python verdict %s differ at step %d (%s) of %s" % (name, sorted(cs), sorted(psyms), j, cls, steps))
        allsyms = psyms | cs
        if allsyms:
            for sym in sorted(allsyms):
                d = dict(det)
                d.update(step=j, opclass=cls, library_state=[" ".join(s) for s in states], model_state=[" ".join(s) for s in r.states],
                         live_blocks=n0 + npos, block_bound=r.bound, objects=objl, objects_model=r.objs)
                ctx.violation("%s:%s:%s:%s" % (c["cont"], c["et"], cls, sym),
                              "%s: %s at step %d (%s) of history %s (fill 0x%02x): library %s | model %s; live blocks %d (bound %d), live objects %d (model %d)" % (
                                  name, sym, j, cls, steps, fill, d["library_state"], d["model_state"], n0 + npos, r.bound, objl, r.objs), d)
            return True
    if len(groups) != len(recs):
        ctx.inconc("%s: trace of %s has %d records, model %d" % (name, steps, len(groups), len(recs)))
        return True
    return False


def crash_family(kind):
    return kind.split(":")[0]


def run(ctx):
    quick = ctx.tier == "quick"
    rng = ctx.rng
    bins = build_or_fail(harness_targets(HARNESSES, "asan"))
    accs = {cname(c): Acc() for c in CONFIGS}
    only = os.environ.get("C19_ONLY")  # debugging aid: restrict to one container name
    configs = [c for c in CONFIGS if not only or c["cont"] == only]

    # ------------------------------------------------------------------ case generation
    per_bin = {}   # binary name -> list of (id, line)
    meta = {}
    cid = 0

    def add(c, line, m):
        nonlocal cid
        cid += 1
        i = str(cid)
        per_bin.setdefault(c["bin"], []).append((i, "%s %s" % (i, line)))
        m["c"] = c
        meta[i] = m

    depth_plan = {}
    for c in configs:
        if c.get("scripted_only"):
            for st in SCRIPTED_VNT:
                add(c, hist_line(c, 0, st), dict(kind="hist", steps=st, fill=0, scripted=True))
            depth_plan[cname(c)] = ["%d scripted histories only" % len(SCRIPTED_VNT)]
            continue
        alpha = M.alphabet(c["family"], c.get("ak", c.get("mk")))
        prim = c.get("primary", False)
        if quick:
            depth = 5 if c.get("deepq") else 4
        else:
            depth = 6 if c.get("deep") else 5
        # exhaustive, zero-filled raw storage
        p = plan_enum(alpha, depth)
        for prefix in itertools.product(alpha, repeat=p):
            add(c, enum_line(c, 0, alpha, list(prefix), depth - p), dict(kind="enum", alpha=alpha, prefix=list(prefix), depth=depth - p, fill=0))
        plan = ["%d symbols ^ %d" % (len(alpha), depth)]
        # exhaustive, poisoned raw storage (not where the unchanged tree is known to dereference unconstructed members)
        if not c.get("fragile"):
            pd = depth - 1
            p = plan_enum(alpha, pd)
            for prefix in itertools.product(alpha, repeat=p):
                add(c, enum_line(c, POISON, alpha, list(prefix), pd - p), dict(kind="enum", alpha=alpha, prefix=list(prefix), depth=pd - p, fill=POISON))
            plan.append("poisoned %d ^ %d" % (len(alpha), pd))
        # deepest level over the reduced alphabet
        ra = M.reduced_alphabet(c["family"], c.get("mk"))
        if ra and not quick and c["et"] == "int" and c["mk"] in ("vec", "svec"):
            p = plan_enum(ra, 7, per_case=10000)
            for prefix in itertools.product(ra, repeat=p):
                add(c, enum_line(c, 0, ra, list(prefix), 7 - p), dict(kind="enum", alpha=ra, prefix=list(prefix), depth=7 - p, fill=0))
            plan.append("reduced %d ^ 7" % len(ra))
        # traced: all short sequences + seeded random long ones (compared by the Python model as well)
        tl = 2 if quick else 3
        for seq in itertools.product(alpha, repeat=tl):   # prefix-closed: shorter ones are contained
            add(c, hist_line(c, 0, list(seq)), dict(kind="hist", steps=list(seq), fill=0))
        nrand, maxlen, nquiet = (500, 60, 0) if quick else (1000, 200, 5000)
        for _ in range(nrand):
            st = M.random_history(rng, c["family"], c.get("ak", c.get("mk")), maxlen)
            add(c, hist_line(c, 0, st), dict(kind="hist", steps=st, fill=0, random=True))
        for _ in range(nquiet):   # verdict of the C++ side model only
            st = M.random_history(rng, c["family"], c.get("ak", c.get("mk")), maxlen)
            add(c, "histq %d %d %d %s" % (c["kind"], c["etc"], 0, fmt_steps(st)), dict(kind="histq", steps=st, fill=0))
        if c.get("ak") == "vnt":
            for st in SCRIPTED_VNT:
                add(c, hist_line(c, 0, st), dict(kind="hist", steps=st, fill=0, scripted=True))
        # scripted histories on poisoned storage
        for st in M.fixed_histories(c["family"], c.get("mk")):
            add(c, hist_line(c, POISON, st), dict(kind="hist", steps=st, fill=POISON, scripted=True))
        if c["family"] == "seq" and c["mk"] == "svec":
            for n in (5, 6):
                add(c, hist_line(c, 0, [(10, 0, n)]), dict(kind="hist", steps=[(10, 0, n)], fill=0))
        plan.append("traced: all of length %d, %d random of length <= %d; %d more random ones untraced" % (tl, nrand, maxlen, nquiet))
        depth_plan[cname(c)] = plan

    # ------------------------------------------------------------------ execution (ASan build)
    import time
    t_gen = time.time()
    results, crashes, touts = {}, [], []
    for b, lines in per_bin.items():
        r, cr, to = R.run_cases(bins[(b, "asan")], lines, nbatch=min(B.JOBS, max(1, len(lines))), env_extra=ENV, timeout=900 if quick else 5400)
        results.update(r)
        crashes += cr
        touts += to

    t_run = time.time()
    expand = []
    for cr in crashes:
        m = meta.get(cr.case_id)
        if m is None:
            ctx.violation("process:exit:%s" % crash_family(cr.kind()), "harness process died outside a case: %s" % cr.kind(), dict(stderr=cr.stderr[-3000:]))
            continue
        c = m["c"]
        accs[cname(c)].crashes += 1
        if m["kind"] == "enum":
            expand.append((cr, m))
            continue
        if cr.kind() == "lsan:leak" or "LeakSanitizer" in cr.stderr:
            pass
        ctx.violation("%s:%s:crash_%s:%s" % (c["cont"], c["et"], "poisoned_storage" if m["fill"] else "zeroed_storage", crash_family(cr.kind())),
                      "%s: process died (%s) in history %s (fill 0x%02x)" % (cname(c), cr.kind(), m["steps"], m["fill"]),
                      dict(container=cname(c), steps=m["steps"], fill=m["fill"], crash=cr.kind(), stderr=cr.stderr[-3000:]))
    # a crash inside an enumeration: re-run that enumeration as single histories to find the culprit(s)
    done_expand = {}
    for cr, m in expand:
        c = m["c"]
        key = "%s:%s:crash_%s:%s" % (c["cont"], c["et"], "poisoned_storage" if m["fill"] else "zeroed_storage", crash_family(cr.kind()))
        if done_expand.get(key, 0) >= 2:
            ctx.violation(key, "%s: process died (%s) while enumerating prefix %s" % (cname(c), cr.kind(), m["prefix"]), dict(prefix=m["prefix"], crash=cr.kind()))
            continue
        done_expand[key] = done_expand.get(key, 0) + 1
        lines = []
        hm = {}
        for q, w in enumerate(itertools.product(m["alpha"], repeat=m["depth"])):
            st = m["prefix"] + list(w)
            lines.append(("x%d" % q, "x%d %s" % (q, hist_line(c, m["fill"], st))))
            hm["x%d" % q] = st
        r2, cr2, _ = R.run_cases(bins[(c["bin"], "asan")], lines, nbatch=min(B.JOBS, len(lines)), env_extra=ENV)
        wit = [hm[x.case_id] for x in cr2 if x.case_id in hm]
        ctx.violation(key, "%s: process died (%s) in history %s (fill 0x%02x); %d of the %d histories with prefix %s die" % (
            cname(c), cr.kind(), wit[0] if wit else "?", m["fill"], len(cr2), len(lines), m["prefix"]),
            dict(container=cname(c), steps=wit[0] if wit else None, prefix=m["prefix"], fill=m["fill"], crash=cr.kind(), stderr=cr.stderr[-3000:]))
    for t in touts:
        ctx.inconc("timeout in case %s" % (t,))

    # ------------------------------------------------------------------ verdicts
    missing = 0
    for b, lines in per_bin.items():
        for i, _ in lines:
            m = meta[i]
            c = m["c"]
            acc = accs[cname(c)]
            if i not in results:
                missing += 1
                continue
            toks, _hooks = split_hooks(results[i])
            try:
                if m["kind"] in ("enum", "histq"):
                    ks = acc.add_ag(toks, False)
                    for cls, sym, cnt, fill, wit in ks:
                        ctx.violation("%s:%s:%s:%s" % (c["cont"], c["et"], cls, sym),
                                      "%s: %s at a %s step; first history %s (fill 0x%02x); %d histories of this enumeration" % (cname(c), sym, cls, wit, fill, cnt),
                                      dict(container=cname(c), steps=wit, fill=fill, count=cnt, replay_line=hist_line(c, fill, wit)))
                else:
                    bad = check_traced(ctx, c, m["steps"], m["fill"], toks, acc)
                    if not bad and len(ctx.samples) < 6 and m.get("random") and int(i) % 7 == 0:
                        ctx.sample(dict(container=cname(c), n_steps=len(m["steps"]), first_steps=m["steps"][:12], trace_head=" ".join(toks[:90])))
            except (ValueError, IndexError) as e:
                ctx.inconc("%s: unparsable record of case %s: %s" % (cname(c), m.get("steps", m.get("prefix")), e))
    ctx.set("phase_seconds", dict(generate=round(t_gen - ctx.t0, 1), run=round(t_run - t_gen, 1), compare=round(time.time() - t_run, 1)))
    explained = {cr.case_id for cr in crashes} | set(touts)
    unexplained = [i for b_, lines in per_bin.items() for i, _ in lines if i not in results and i not in explained]
    if unexplained:
        ctx.inconc("%d cases produced no record and no crash/timeout explains it (first: %s)" % (len(unexplained), meta[unexplained[0]].get("steps", meta[unexplained[0]].get("prefix"))))
    ctx.set("timeouts", len(touts))
    ctx.set("cases_without_record", missing)

    # ------------------------------------------------------------------ memcheck on a sample (thorough)
    mc = None
    if not quick:
        mc = run_memcheck(ctx, configs, rng)

    # ------------------------------------------------------------------ evidence
    tot_hist = 0
    per = {}
    for c in configs:
        a = accs[cname(c)]
        n = a.hist_enum + a.hist_traced
        tot_hist += n
        for oc in a.opclasses:
            if oc != "skip":
                ctx.seen((cname(c), oc))
        per[cname(c)] = dict(histories_enumerated=a.hist_enum, histories_traced=a.hist_traced, steps=a.steps,
                             distinct_states_sum_over_cases=a.states, allocations=a.allocs, frees=a.frees, memcpy_calls=a.memcpys,
                             capacity_hook_events=a.cap_events, refused_operations=a.cap_refused, bounds_hook_events=a.at_events,
                             counted_objects_constructed=a.obj_ctor, counted_objects_destroyed=a.obj_dtor,
                             unspecified_cells_not_compared=a.unspecified, crashes_contained=a.crashes,
                             operation_classes={k: v for k, v in sorted(a.opclasses.items())}, plan=depth_plan.get(cname(c)))
        if n == 0:
            ctx.inconc("%s: no history executed" % cname(c))
        if a.harness_err:
            ctx.inconc("%s: the model side of the counted type reported registry events (harness defect)" % cname(c))
        if c["family"] == "seq" and c["mk"] == "svec" and (a.cap_refused == 0 or a.cap_events == 0):
            ctx.inconc("%s: no over-capacity operation / SVEC_CAPACITY hook event observed" % cname(c))
        if c["family"] == "seq" and c["mk"] in ("smallu", "smalld") and not any(k.endswith("_cross") for k in a.opclasses):
            ctx.inconc("%s: the static->dynamic threshold was never crossed" % cname(c))
        if c["family"] == "seq" and c["mk"] == "vec" and not c.get("scripted_only") and (a.allocs == 0 or a.frees == 0):
            ctx.inconc("%s: counting allocator saw no allocation / free" % cname(c))
        if "counted" in c.get("eks", ()) and a.obj_ctor == 0:
            ctx.inconc("%s: counted element type never constructed" % cname(c))
    ctx.ev(tot_hist)
    ctx.set("per_container", per)
    ctx.set("crashes_contained", len(crashes))
    ctx.set("sanitizer_builds", ["asan (ASan+UBSan+_GLIBCXX_ASSERTIONS)"] + (["plain under valgrind memcheck"] if mc else []))
    if mc:
        ctx.set("memcheck", mc)
    ctx.rule = ("per container x element type: exhaustive enumeration of all operation sequences over the stated alphabet up to the stated depth on two objects "
                "(prefix-closed: every step of every history is compared), seeded random long histories, scripted histories on 0xCD-poisoned storage; "
                "distinct = (container<element>, operation class) pairs executed; evaluations = histories")
    ctx.exhaustive = False


def run_memcheck(ctx, configs, rng):
    """valgrind memcheck (plain build) on a sample: uninitialised-value use is the event"""
    bins = build_or_fail(harness_targets(HARNESSES, "plain"))
    per_bin = {}
    meta = {}
    n = 0
    for c in configs:
        if c.get("scripted_only"):
            continue
        alpha = M.alphabet(c["family"], c.get("ak", c.get("mk")))
        for prefix in itertools.product(alpha, repeat=1):
            n += 1
            i = "m%d" % n
            per_bin.setdefault(c["bin"], []).append((i, "%s %s" % (i, enum_line(c, 0, alpha, list(prefix), 2))))
            meta[i] = dict(c=c, kind="enum")
        for _ in range(150):
            st = M.random_history(rng, c["family"], c.get("ak", c.get("mk")), 40)
            n += 1
            i = "m%d" % n
            per_bin.setdefault(c["bin"], []).append((i, "%s %s" % (i, hist_line(c, 0, st))))
            meta[i] = dict(c=c, kind="hist", steps=st, fill=0)
    wrapper = ["valgrind", "-q", "--leak-check=no", "--error-exitcode=0", "--undef-value-errors=yes", "--error-limit=no"]
    hist = 0
    errs = 0
    accs = {cname(c): Acc() for c in configs}
    for b, lines in per_bin.items():
        r, cr, to = R.run_cases(bins[(b, "plain")], lines, nbatch=min(B.JOBS, len(lines)), wrapper=wrapper, timeout=1800)
        for x in cr:
            m = meta.get(x.case_id)
            if m:
                c = m["c"]
                ctx.violation("%s:%s:crash_memcheck:%s" % (c["cont"], c["et"], crash_family(x.kind())),
                              "%s: process died under valgrind (%s) in %s" % (cname(c), x.kind(), m.get("steps")), dict(stderr=x.stderr[-3000:]))
        for t in to:
            ctx.inconc("memcheck timeout in %s" % t)
        for i, _ in lines:
            if i not in r:
                continue
            m = meta[i]
            c = m["c"]
            toks, _h = split_hooks(r[i])
            try:
                if m["kind"] == "enum":
                    ks = accs[cname(c)].add_ag(toks, False)
                    for cls, sym, cnt, fill, wit in ks:
                        if sym == "memcheck":
                            errs += cnt
                        ctx.violation("%s:%s:%s:%s" % (c["cont"], c["et"], cls, sym),
                                      "%s (memcheck build): %s at a %s step; first history %s" % (cname(c), sym, cls, wit), dict(steps=wit, fill=fill, count=cnt))
                else:
                    check_traced(ctx, c, m["steps"], m["fill"], toks, accs[cname(c)], memcheck=True)
            except (ValueError, IndexError) as e:
                ctx.inconc("%s: unparsable memcheck record: %s" % (cname(c), e))
    hist = sum(a.hist_enum + a.hist_traced for a in accs.values())
    if hist == 0:
        ctx.inconc("memcheck tier executed nothing")
    return dict(histories=hist, steps=sum(a.steps for a in accs.values()), uninitialised_value_events=errs)
