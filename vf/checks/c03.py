"""C03: rearranging views (reshape, flatten, transpose, moveaxis, swapaxes, expand_dims, squeeze, atleast_*, flip) equal NumPy."""
import itertools

import numpy as np

from .. import viewrun as V
from ..util import all_shapes, fmt_vec, HookAcc

CLAIM = dict(
    technique="runtime monitoring: sanitizer-instrumented execution of every rearranging view on label arrays, NumPy reference oracle over recorded (shape, every element), involution laws on recorded results",
    text="Every op is executed on dynamic ndarrays filled with unique labels for all source shapes of dim 0..4 / small extents and all valid arguments of the quantifier (all factorisations incl. each position of one -1, all permutations, all valid negative/positive axes and axis lists); shape and every element read lazily through view(i...) are compared with NumPy on the same labels; transpose(p) then transpose(p^-1) and flip twice must restore the source. ASan/UBSan/libstdc++ assertions and the bounds hooks watch the same executions. Held-on-observed.",
    note="Trusted: NumPy as the reference; the harness' own odometer for element reads; run-time (dynamic container) argument kinds, plus compile-time axes (meta::ct_v<k>) for flip / expand_dims / swapaxes / moveaxis / transpose on a source of compile-time dimension 3 and on a dynamic source; the remaining kinds are C09's business.",
    ref="DESIGN.md 4/C03")
HARNESS = ["c03_a", "c03_b", "c03_ct"]
TARGETS_QUICK = [("c03_a", "asan"), ("c03_b", "asan"), ("c03_ct", "asan")]

# pairs of compile-time axes instantiated by harness/c03_ct.cpp (swapaxes_ct / moveaxis_ct)
CT_PAIRS = [(0, 1), (0, -1), (-1, 0), (1, 2), (-2, -1), (2, 0), (-3, -1), (-1, -3), (1, -2), (2, 2)]

BASE = 100


def labels(shape):
    n = int(np.prod(shape)) if len(shape) else 1
    return (np.arange(n) + BASE).reshape(shape).astype(np.int32)


def factorizations(n, maxlen=4):
    """all tuples of positive ints of length 1..maxlen with product n"""
    out = []

    def rec(rem, cur):
        if len(cur) >= 1 and rem == 1:
            out.append(tuple(cur))
        if len(cur) == maxlen:
            return
        for d in range(1, rem + 1):
            if rem % d == 0:
                if d == 1 and len(cur) >= 2 and cur[-1] == 1 and cur[-2] == 1:
                    continue
                rec(rem // d, cur + [d])
    rec(n, [])
    return sorted(set(t for t in out if int(np.prod(t)) == n))


def axis_variants(ax, dim, rng):
    """a valid axis as positive or negative number"""
    return ax if rng.random() < 0.5 else ax - dim


def gen_cases(rng, tier):
    quick = tier == "quick"
    cases = []

    def add(op, args, **m):
        m.update(op=op, args=args)
        cases.append(m)

    maxext = 3 if quick else 4
    shapes = [s for s in all_shapes(4, maxext, mindim=1)]
    if quick:
        # all dim<=3 up to extent 4, dim 4 up to extent 3 sampled
        shapes = [s for s in all_shapes(3, 4, mindim=1)] + rng.sample([s for s in all_shapes(4, 3, mindim=4)], 30)
    sampled_big = []
    for _ in range(40 if quick else 5000):
        d = rng.randint(1, 6)
        s = [rng.randint(1, 9) for _ in range(d)]
        if int(np.prod(s)) <= 3000:
            sampled_big.append(s)
    # ---- reshape / flatten
    seen_n = {}
    for s in shapes:
        n = int(np.prod(s))
        facts = factorizations(n, 3 if quick else 4)
        if quick and len(facts) > 12:
            facts = rng.sample(facts, 12)
        for f in facts:
            add("reshape", "%s %s" % (fmt_vec(s), fmt_vec(f)), shape=s, newshape=list(f))
            # every position of a single -1
            poss = range(len(f)) if not quick else [rng.randrange(len(f))]
            for k in poss:
                g = list(f)
                g[k] = -1
                add("reshape", "%s %s" % (fmt_vec(s), fmt_vec(g)), shape=s, newshape=g)
        add("flatten", fmt_vec(s), shape=s)
    for s in sampled_big:
        n = int(np.prod(s))
        facts = factorizations(n, 4)
        f = list(rng.choice(facts))
        if rng.random() < 0.5:
            f[rng.randrange(len(f))] = -1
        add("reshape", "%s %s" % (fmt_vec(s), fmt_vec(f)), shape=s, newshape=f)
    # ---- transpose: all permutations
    for s in shapes + sampled_big:
        d = len(s)
        perms = list(itertools.permutations(range(d)))
        if len(perms) > 24:
            perms = rng.sample(perms, 8 if quick else 24)
        elif quick and d == 4:
            perms = rng.sample(perms, 6)
        for p in perms:
            pp = [axis_variants(a, d, rng) if rng.random() < 0.3 else a for a in p]
            add("transpose", "%s %s" % (fmt_vec(s), fmt_vec(pp)), shape=s, axes=pp)
            if rng.random() < (0.3 if quick else 1.0):
                inv = list(np.argsort(p))
                add("transpose2", "%s %s %s" % (fmt_vec(s), fmt_vec(p), fmt_vec(inv)), shape=s, p=list(p), q=[int(x) for x in inv])
        add("transpose_default", fmt_vec(s), shape=s)
    # ---- moveaxis / swapaxes
    for s in shapes + sampled_big[: (10 if quick else 500)]:
        d = len(s)
        for a in range(d):
            for b in range(d):
                if quick and d >= 3 and rng.random() < 0.5:
                    continue
                av, bv = axis_variants(a, d, rng), axis_variants(b, d, rng)
                add("moveaxis1", "%s %d %d" % (fmt_vec(s), av, bv), shape=s, src=av, dst=bv)
                av, bv = axis_variants(a, d, rng), axis_variants(b, d, rng)
                add("swapaxes", "%s %d %d" % (fmt_vec(s), av, bv), shape=s, a1=av, a2=bv)
        # axis lists of length 1..2 (thorough: ..3)
        for L in range(1, min(d, 2 if quick else 3) + 1):
            srcs = list(itertools.permutations(range(d), L))
            dsts = list(itertools.permutations(range(d), L))
            pairs = [(x, y) for x in srcs for y in dsts]
            if len(pairs) > (6 if quick else 40):
                pairs = rng.sample(pairs, 6 if quick else 40)
            for x, y in pairs:
                xv = [axis_variants(a, d, rng) for a in x]
                yv = [axis_variants(a, d, rng) for a in y]
                add("moveaxis", "%s %s %s" % (fmt_vec(s), fmt_vec(xv), fmt_vec(yv)), shape=s, src=xv, dst=yv)
    # ---- expand_dims
    for s in shapes + sampled_big[: (10 if quick else 500)]:
        d = len(s)
        for ax in range(-(d + 1), d + 1):
            add("expand_dims1", "%s %d" % (fmt_vec(s), ax), shape=s, axes=ax)
        for L in (2, 3):
            nd = d + L
            # axis lists in ANY order (NumPy treats them as a set): permutations, not combinations
            combos = list(itertools.permutations(range(nd), L))
            lim = (4 if L == 2 else 2) if quick else 20
            if len(combos) > lim:
                combos = rng.sample(combos, lim)
            for c in combos:
                cv = [axis_variants(a, nd, rng) for a in c]
                add("expand_dims", "%s %s" % (fmt_vec(s), fmt_vec(cv)), shape=s, axes=cv)
    # ---- squeeze, atleast, flip
    for s in shapes + sampled_big[: (10 if quick else 500)]:
        d = len(s)
        add("squeeze", fmt_vec(s), shape=s)
        add("atleast_1d", fmt_vec(s), shape=s)
        add("atleast_2d", fmt_vec(s), shape=s)
        for nd in range(1, 6):
            if quick and rng.random() < 0.5:
                continue
            add("atleast_nd", "%s %d" % (fmt_vec(s), nd), shape=s, nd=nd)
        for ax in range(-d, d):
            add("flip1", "%s %d" % (fmt_vec(s), ax), shape=s, axes=ax)
            if rng.random() < (0.4 if quick else 1.0):
                ax2 = ax + d if ax < 0 and rng.random() < 0.5 else ax
                add("flip2", "%s %d %d" % (fmt_vec(s), ax, ax2), shape=s, ax1=ax, ax2=ax2)
        for L in (2, 3):
            if d < L:
                continue
            # axis lists in ANY order (descending, mixed-sign ...): permutations, not combinations
            combos = list(itertools.permutations(range(d), L))
            if quick and len(combos) > (6 if L == 2 else 4):
                combos = [c for c in combos if list(c) != sorted(c)][:2] + rng.sample(combos, 4 if L == 2 else 2)
            for c in combos:
                cv = [axis_variants(a, d, rng) for a in c]
                add("flip", "%s %s" % (fmt_vec(s), fmt_vec(cv)), shape=s, axes=cv)
        add("flip_none", fmt_vec(s), shape=s)
        add("flipud", fmt_vec(s), shape=s)
        if d >= 2:
            add("fliplr", fmt_vec(s), shape=s)
    # ---- compile-time axes (meta::ct_v<k>) on a source of compile-time dimension 3 (kind 0) and on a dynamic source (kind 1):
    #      the constant-index branches of the index functions, over the same grids
    ct_shapes = [s for s in all_shapes(3, 3, mindim=3)]
    if quick:
        ct_shapes = [[2, 3, 4], [1, 2, 3], [3, 1, 2]] + rng.sample(ct_shapes, 4)
    for s in ct_shapes:
        for kind in (0, 1):
            for ax in range(-3, 3):
                add("flip_ct", "%d %s %d" % (kind, fmt_vec(s), ax), shape=s, axes=ax, kind=kind)
            for ax in range(-4, 4):
                add("expand_dims_ct", "%d %s %d" % (kind, fmt_vec(s), ax), shape=s, axes=ax, kind=kind)
            for a1, a2 in CT_PAIRS:
                add("swapaxes_ct", "%d %s %d %d" % (kind, fmt_vec(s), a1, a2), shape=s, a1=a1, a2=a2, kind=kind)
                add("moveaxis_ct", "%d %s %d %d" % (kind, fmt_vec(s), a1, a2), shape=s, src=a1, dst=a2, kind=kind)
            for p in itertools.permutations(range(3)):
                add("transpose_ct", "%d %s %s" % (kind, fmt_vec(s), fmt_vec(list(p))), shape=s, axes=list(p), kind=kind)
    # scalars (dim 0) through the routes the API offers
    add("atleast_1d", fmt_vec([]), shape=[])
    add("atleast_2d", fmt_vec([]), shape=[])
    return cases


def expected(m):
    """NumPy result for a case (numpy array)."""
    op = m["op"]
    s = m["shape"]
    a = labels(s) if len(s) else np.array(137, dtype=np.int32)
    if op == "reshape":
        return a.reshape(m["newshape"])
    if op == "flatten":
        return a.flatten()
    if op.endswith("_ct"):
        op = {"flip_ct": "flip1", "expand_dims_ct": "expand_dims1", "swapaxes_ct": "swapaxes", "moveaxis_ct": "moveaxis1", "transpose_ct": "transpose"}[op]
    if op == "transpose":
        return np.transpose(a, m["axes"])
    if op == "transpose_default":
        return np.transpose(a)
    if op == "transpose2":
        return np.transpose(np.transpose(a, m["p"]), m["q"])
    if op in ("moveaxis", "moveaxis1"):
        return np.moveaxis(a, m["src"], m["dst"])
    if op == "swapaxes":
        return np.swapaxes(a, m["a1"], m["a2"])
    if op in ("expand_dims", "expand_dims1"):
        ax = m["axes"]
        return np.expand_dims(a, tuple(ax) if isinstance(ax, list) else ax)
    if op == "squeeze":
        return np.squeeze(a)
    if op == "atleast_1d":
        return np.atleast_1d(a)
    if op == "atleast_2d":
        return np.atleast_2d(a)
    if op == "atleast_nd":
        nd = m["nd"]
        if a.ndim >= nd:
            return a
        return a.reshape((1,) * (nd - a.ndim) + a.shape)
    if op in ("flip", "flip1"):
        ax = m["axes"]
        return np.flip(a, tuple(ax) if isinstance(ax, list) else ax)
    if op == "flip_none":
        return np.flip(a)
    if op == "flipud":
        return np.flipud(a)
    if op == "fliplr":
        return np.fliplr(a)
    if op == "flip2":
        return np.flip(np.flip(a, m["ax1"]), m["ax2"])
    raise KeyError(op)


def argclass(m):
    op = m["op"]
    d = len(m["shape"])
    parts = ["dim%d" % d if d <= 4 else "dim5+"]
    if op == "squeeze" and all(e == 1 for e in m["shape"]):
        return "all_ones"
    if op == "reshape":
        parts.append("infer" if -1 in m["newshape"] else "explicit")
    if op.endswith("_ct"):
        parts.append("fixed_dim" if m.get("kind") == 0 else "dynamic")
    if op in ("expand_dims1", "flip1", "moveaxis1", "swapaxes", "expand_dims_ct", "flip_ct", "moveaxis_ct", "swapaxes_ct"):
        vals = [m.get("axes"), m.get("src"), m.get("dst"), m.get("a1"), m.get("a2")]
        parts.append("neg" if any(isinstance(v, int) and v < 0 for v in vals) else "pos")
    return ":".join(parts)


def oracle(ctx, cr):
    m = cr.m
    op = m["op"]
    det = dict(case={k: v for k, v in m.items() if k != "args"}, line=cr.line)
    if cr.crash is not None:
        ctx.violation("%s:%s:crash:%s" % (op, argclass(m), cr.crash.kind()), "%s %s died: %s" % (op, det["case"], cr.crash.kind()), dict(det, stderr=cr.crash.stderr[-3000:]))
        return
    if cr.timeout:
        ctx.inconc("timeout in %s" % det["case"])
        return
    if cr.rec is None:
        return
    if "error" in cr.rec:
        ctx.violation("%s:malformed_record" % op, cr.rec["error"][:300], det)
        return
    ctx.ev()
    exp = expected(m)
    got = cr.rec["V"]
    if got is None:
        ctx.violation("%s:%s:nothing" % (op, argclass(m)), "%s %s returned Nothing for valid arguments (NumPy shape %s)" % (op, det["case"], list(exp.shape)), det)
        return
    why = V.compare_np(got, exp)
    if why:
        sym = "shape" if why.startswith("shape") or "scalar" in why else "element"
        ctx.violation("%s:%s:%s" % (op, argclass(m), sym), "%s %s: %s" % (op, det["case"], why), det)
    elif op in ("transpose2", "flip2") and op == "transpose2":
        # involution law independent of NumPy: result must be the source itself
        src = labels(m["shape"])
        w2 = V.compare_np(got, src)
        if w2:
            ctx.violation("%s:involution" % op, "transpose(p) then transpose(p^-1) does not restore the source: %s" % w2, det)
    if op == "flip2" and (m["ax1"] - m["ax2"]) % len(m["shape"]) == 0:
        w2 = V.compare_np(got, labels(m["shape"]))
        if w2:
            ctx.violation("flip2:involution", "flip twice over the same axis does not restore the source: %s" % w2, det)
    # permutation of the source labels
    if got is not None and got.get("data") is not None and not why:
        pass
    if exp.size > 1:
        ctx.seen((op, tuple(m["shape"]), str(m.get("axes", m.get("newshape", m.get("src", m.get("p", ""))))), str(m.get("dst", m.get("q", m.get("nd", ""))))))
    if exp.size > 3 and len(ctx.samples) < 8 and ctx.rng.random() < 0.01:
        ctx.sample(dict(op=op, case=det["case"], result_shape=got.get("shape"), first_elements=(got.get("data") or [])[:8]))


def run(ctx):
    cases = gen_cases(ctx.rng, ctx.tier)
    acc = HookAcc()
    norec = 0
    ncrash = 0
    # bounded memory: every record carries the elements of six routes, so the cases are executed and judged chunk by chunk
    CH = 25000
    for k0 in range(0, len(cases), CH):
        res = V.run_module_cases(HARNESS, cases[k0:k0 + CH], "asan")
        for cr in res:
            for (site, f0, f1) in V.hook_problems(cr, acc):
                ctx.violation("%s:%s:hook:%s" % (cr.m["op"], argclass(cr.m) if "shape" in cr.m else "-", site), "hook %s: index %d outside bound %d in %s" % (site, f0, f1, cr.line), dict(line=cr.line))
            oracle(ctx, cr)
            if cr.rec is None and cr.crash is None and not cr.timeout:
                norec += 1
            if cr.crash is not None:
                ncrash += 1
        del res
    if norec:
        ctx.inconc("%d cases produced no record" % norec)
    ops = sorted({c["op"] for c in cases})
    ctx.rule = ("ops %s on label arrays; quick: all source shapes dim 1..3 extents 1..4 (+30 dim-4, +40 sampled up to dim 6 / extent 9), all factorisations "
                "(sampled to 12 per shape) with a -1, all permutations, all valid +/- axes; thorough: all shapes dim 1..4 extents 1..4 + 5000 sampled. "
                "distinct = (op, shape, arguments) with more than one element" % ",".join(ops))
    ctx.set("hook_events", acc.summary())
    ctx.set("ops", ops)
    ctx.set("cases_generated", len(cases))
    ctx.set("crashes_contained", ncrash)
    if acc.events.get(2, 0) == 0:
        ctx.inconc("view index hook never fired")
