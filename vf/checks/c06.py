"""C06: broadcasting follows NumPy's rules and is symmetric, associative, idempotent;
broadcast_to / broadcast_arrays elements come from the right source element."""
import itertools

import numpy as np

from .. import run as R
from ..util import (Tok, split_hooks, harness_targets, build_or_fail, all_shapes, fmt_vec, HookAcc, SITE_NAMES)

CLAIM = dict(
    technique="runtime monitoring: sanitizer-instrumented execution of index::broadcast_shape / shape_broadcast_to / index::broadcast_to / "
              "view::broadcast_to / view::broadcast_arrays over exhaustive small-scope + seeded argument spaces; NumPy reference oracle "
              "(broadcast_shapes, broadcast_to, broadcast_arrays on uniquely labelled arrays) plus metamorphic law checks on the recorded results",
    text="Executes broadcast_shape for every pair of shapes of dim 0..3 / extents 1..3 (thorough: dim 0..4 / extents 1..4 = 341^2 pairs), every triple "
         "over dim 0..2 (thorough: +200k sampled triples, dims up to 8 sampled), 4-operand calls, with run-time shape containers of kind list / "
         "array<N> / static_vector / list<int> / None in mixed combinations (g++ STL, g++ no-STL, clang builds), plus constant / clipped-tuple / "
         "clipped-array shapes against every run-time kind; records has_value + result and decides "
         "success/failure and the result against numpy.broadcast_shapes; commutativity, associativity (both groupings == variadic), idempotence, "
         "absorption and scalar neutrality are checked on the recorded results themselves (table look-ups closed over the exhaustive scope and "
         "in-library nested calls on the maybe-valued results). shape_broadcast_to/origin_axes/index::broadcast_to and the views broadcast_to / "
         "broadcast_arrays are executed for every (source, target) pair of the small scope incl. invalid targets; shape and every element of the "
         "lazy view and of all evaluation routes are compared with NumPy on label arrays; failure must be reported (Nothing) exactly when NumPy raises; "
         "crashes and bounds-hook events are violations. Held-on-observed, not a proof.",
    note="Trusted: NumPy as the model, the harness odometer, ASan+UBSan+_GLIBCXX_ASSERTIONS builds. Extents are >= 1 (the property statement's "
         "'per-axis maximum' rule; zero extents are outside it). Constant / clipped shapes are exercised at the index level against every run-time kind "
         "(finding c06_clipped_operand_clamps_result lives there); constant/clipped-shape ndarrays at the view level are C09's subject. "
         "Clipped-integer clamp events are counted, not alarmed on (they also occur on discarded results of failing broadcasts). "
         "The no-STL build runs with leak detection off (utl::maybe<utl::vector> leaks are C19's subject).",
    ref="DESIGN.md 4/C06")

IDX_TARGETS = ["c06_index", "c06_index_n", "c06_index_to", "c06_index_ct"]
VIEW_TARGETS = ["c06_bto", "c06_bto_fixed", "c06_barr"]
TARGETS_QUICK = [(n, "asan") for n in IDX_TARGETS + VIEW_TARGETS] + [("c06_index", "nostl"), ("c06_index_n", "nostl"), ("c06_index", "clang")]

K_LIST, K_ARRAY, K_SVEC, K_NONE, K_ILIST = 0, 1, 3, 4, 5
K_SVEC2 = 7
KN = {0: "list", 1: "array", 3: "svec", 4: "none", 5: "ilist", 7: "svec2"}
MENU_CONST = {0: (2, 3), 1: (1, 3), 2: (3,), 3: (2, 1, 3), 6: (3, 1), 7: (2, 3, 1)}
MENU_KIND = {0: "const", 1: "const", 2: "const", 3: "const", 4: "clip-tuple", 5: "clip-array", 6: "const", 7: "const"}
A_DYN, A_HYB, A_NUM = 0, 1, 2
AN = {0: "dyn", 1: "hybrid", 2: "scalar"}


# ----------------------------------------------------------------------------------------------
# reference models
# ----------------------------------------------------------------------------------------------
_bs_cache = {}


def np_bs(shapes):
    """numpy.broadcast_shapes; None when NumPy raises"""
    key = tuple(tuple(s) for s in shapes)
    if key in _bs_cache:
        return _bs_cache[key]
    try:
        r = tuple(int(x) for x in np.broadcast_shapes(*key))
    except ValueError:
        r = None
    _bs_cache[key] = r
    return r


def rule_bs(shapes):
    """the property statement, literally: right-aligned, all extents per axis equal or 1 -> per-axis maximum"""
    n = max((len(s) for s in shapes), default=0)
    out = []
    for k in range(1, n + 1):
        ext = [s[-k] for s in shapes if len(s) >= k]
        m = max(ext)
        if any(e != m and e != 1 for e in ext):
            return None
        out.append(m)
    return tuple(reversed(out))


def np_bto(src_arr, dst):
    try:
        return np.broadcast_to(src_arr, tuple(dst))
    except ValueError:
        return None


def dimclass(shapes):
    ds = [len(s) for s in shapes]
    if 0 in ds:
        return "scalar"
    if len(set(ds)) == 1:
        return "samedim"
    return "diffdim"


def bs_class(shapes, exp):
    return ("compatible" if exp is not None else "incompatible") + "-" + dimclass(shapes)


def bto_class(src, dst, exp):
    if exp is not None:
        return "valid"
    if len(dst) < len(src):
        return "invalid-fewer-dims"
    return "invalid-extent"


# ----------------------------------------------------------------------------------------------
# case generation
# ----------------------------------------------------------------------------------------------
def gen_tuple(rng, n, maxdim, maxext, mode):
    """n shapes; mode compat: derived from a common result; perturbed: one extent changed; random: uniform"""
    if mode == "random":
        return [[rng.randint(1, maxext) for _ in range(rng.randint(0, maxdim))] for _ in range(n)]
    rd = rng.randint(0, maxdim)
    r = [rng.randint(1, maxext) for _ in range(rd)]
    ops = []
    for k in range(n):
        d = rd if (k == 0 and rng.random() < 0.5) else rng.randint(0, rd)
        s = r[rd - d:] if d else []
        s = [1 if rng.random() < 0.3 else e for e in s]
        ops.append(s)
    rng.shuffle(ops)
    if mode == "perturbed":
        cand = [k for k in range(n) if len(ops[k]) > 0]
        if cand:
            k = rng.choice(cand)
            ax = rng.randrange(len(ops[k]))
            choices = [e for e in range(1, maxext + 1) if e != ops[k][ax]]
            if choices:
                ops[k][ax] = rng.choice(choices)
    return ops


def pick_mode(rng):
    x = rng.random()
    return "compat" if x < 0.5 else ("perturbed" if x < 0.8 else "random")


def natural_kind(s, maxn):
    """array<N> for 1..maxn extents, None for the scalar shape, list otherwise"""
    if len(s) == 0:
        return K_NONE
    if len(s) <= maxn:
        return K_ARRAY
    return K_LIST


class Batch:
    def __init__(self, prefix):
        self.prefix = prefix
        self.cases = []
        self.meta = {}

    def add(self, line, m):
        cid = "%s%d" % (self.prefix, len(self.cases) + 1)
        self.cases.append((cid, "%s %s" % (cid, line)))
        self.meta[cid] = m

    def __len__(self):
        return len(self.cases)


def kv(k, s):
    return "%d %s" % (k, fmt_vec(s))


def allowed_kinds_pair(s):
    ks = [K_LIST, K_SVEC, K_ILIST]
    if len(s) == 0:
        ks.append(K_NONE)
    elif len(s) <= 4:
        ks.append(K_ARRAY)
    if len(s) > 8:
        ks.remove(K_SVEC)
    return ks


def gen_pairs(ctx, quick, b):
    rng = ctx.rng
    dom = [tuple(s) for s in (all_shapes(3, 3) if quick else all_shapes(4, 4))]
    for a in dom:
        for c in dom:
            if quick:
                for ka in allowed_kinds_pair(a):
                    for kb in allowed_kinds_pair(c):
                        b.add("bs2 %s %s" % (kv(ka, a), kv(kb, c)), dict(op="bs2", kinds=(ka, kb), shapes=(a, c), table=(ka == K_LIST and kb == K_LIST)))
            else:
                b.add("bs2 %s %s" % (kv(K_LIST, a), kv(K_LIST, c)), dict(op="bs2", kinds=(K_LIST, K_LIST), shapes=(a, c), table=True))
                ka = rng.choice(allowed_kinds_pair(a))
                kb = rng.choice(allowed_kinds_pair(c))
                if (ka, kb) != (K_LIST, K_LIST):
                    b.add("bs2 %s %s" % (kv(ka, a), kv(kb, c)), dict(op="bs2", kinds=(ka, kb), shapes=(a, c), table=False))
    # sampled: higher dims / larger extents
    n = 1500 if quick else 40000
    for _ in range(n):
        a, c = gen_tuple(rng, 2, 8, 5, pick_mode(rng))
        ka = rng.choice(allowed_kinds_pair(a))
        kb = rng.choice(allowed_kinds_pair(c))
        b.add("bs2 %s %s" % (kv(ka, a), kv(kb, c)), dict(op="bs2", kinds=(ka, kb), shapes=(tuple(a), tuple(c)), table=False))
    return dom


def kinds_triple_menu(shapes):
    x = [natural_kind(s, 2) for s in shapes]
    L, S = K_LIST, K_SVEC
    return [(L, L, L), (S, S, S), (x[0], L, S), (S, x[1], L), (L, S, x[2]), tuple(x)]


def rand_kinds_n(rng, shapes, maxn):
    out = []
    for s in shapes:
        ks = [K_LIST, K_SVEC] if len(s) <= 8 else [K_LIST]
        nk = natural_kind(s, maxn)
        if nk != K_LIST:
            ks.append(nk)
        out.append(rng.choice(ks))
    return tuple(out)


def gen_triples(ctx, quick, b):
    rng = ctx.rng
    dom = [tuple(s) for s in all_shapes(2, 3)]
    for t in itertools.product(dom, repeat=3):
        seen = set()
        for ks in kinds_triple_menu(t):
            if ks in seen:
                continue
            seen.add(ks)
            b.add("bs3 " + " ".join(kv(k, s) for k, s in zip(ks, t)), dict(op="bs3", kinds=ks, shapes=t, exh=True))
    n = 1500 if quick else 200000
    for i in range(n):
        hi = (i % 10 == 0)
        t = gen_tuple(rng, 3, 8 if hi else 4, 5 if hi else 4, pick_mode(rng))
        ks = rand_kinds_n(rng, t, 2)
        b.add("bs3 " + " ".join(kv(k, s) for k, s in zip(ks, t)), dict(op="bs3", kinds=ks, shapes=tuple(tuple(s) for s in t), exh=False))
    # four operands: exhaustive over dim 0..2 / extents 1..2, plus sampled
    dom4 = [tuple(s) for s in all_shapes(2, 2)]
    for t in itertools.product(dom4, repeat=4):
        b.add("bs4 " + " ".join(kv(K_LIST, s) for s in t), dict(op="bs4", kinds=(K_LIST,) * 4, shapes=t, exh=True))
        ks = rand_kinds_n(rng, t, 0)
        if ks != (K_LIST,) * 4:
            b.add("bs4 " + " ".join(kv(k, s) for k, s in zip(ks, t)), dict(op="bs4", kinds=ks, shapes=t, exh=False))
    n = 1500 if quick else 60000
    for i in range(n):
        hi = (i % 5 == 0)
        t = gen_tuple(rng, 4, 8 if hi else 4, 5 if hi else 4, pick_mode(rng))
        ks = rand_kinds_n(rng, t, 0)
        b.add("bs4 " + " ".join(kv(k, s) for k, s in zip(ks, t)), dict(op="bs4", kinds=ks, shapes=tuple(tuple(s) for s in t), exh=False))


def gen_mixed(ctx, quick, b):
    """constant / clipped operand x run-time operand: deterministic in both tiers"""
    bext = (1, 2, 3, 5) if quick else (1, 2, 3, 4, 5, 7)
    bdom = [()] + [t for d in (1, 2, 3) for t in itertools.product(bext, repeat=d)]
    ops = [(mn, a) for mn, a in MENU_CONST.items()]
    ops += [(4, (x, y)) for x in (1, 2) for y in (1, 2, 3)]
    ops += [(5, tuple(a)) for a in all_shapes(3, 3 if quick else 4, mindim=1)]
    for mn, a in ops:
        for sb in bdom:
            ks = [K_LIST, K_SVEC, K_NONE if len(sb) == 0 else K_ARRAY]
            if len(sb) <= 2:
                ks.append(K_SVEC2)
            for kb in ks:
                b.add("bsm %d %s %s" % (mn, fmt_vec(a), kv(kb, sb)), dict(op="bsm", menu=mn, kinds=(MENU_KIND[mn], KN[kb]), shapes=(a, sb)))


def sbt_kind_menu(src, dst):
    L, S, A = K_LIST, K_SVEC, K_ARRAY
    xa = A if 1 <= len(src) <= 3 else L
    xb = A if 1 <= len(dst) <= 3 else L
    m = [(L, L), (S, S), (xa, L), (L, xb), (xa, xb), (S, xb)]
    out = []
    for k in m:
        if k not in out:
            out.append(k)
    return out


def gen_sbt(ctx, quick, b):
    rng = ctx.rng
    dom = [tuple(s) for s in (all_shapes(3, 3) if quick else all_shapes(4, 4))]
    for src in dom:
        if len(src) == 0:
            continue
        for dst in dom:
            if quick:
                for ks in sbt_kind_menu(src, dst):
                    b.add("sbt %s %s" % (kv(ks[0], src), kv(ks[1], dst)), dict(op="sbt", kinds=ks, src=src, dst=dst))
            else:
                b.add("sbt %s %s" % (kv(K_LIST, src), kv(K_LIST, dst)), dict(op="sbt", kinds=(K_LIST, K_LIST), src=src, dst=dst))
    n = 1000 if quick else 60000
    for i in range(n):
        src, dst = gen_srcdst(rng, 8 if i % 4 == 0 else 4, 4, 2048)
        ks = rng.choice(sbt_kind_menu(src, dst))
        b.add("sbt %s %s" % (kv(ks[0], src), kv(ks[1], dst)), dict(op="sbt", kinds=ks, src=tuple(src), dst=tuple(dst)))


def gen_srcdst(rng, maxdim, maxext, maxsize):
    """(src, dst) for broadcast_to: mostly valid (dst derived from src), sometimes perturbed / random"""
    while True:
        mode = pick_mode(rng)
        if mode == "random":
            src = [rng.randint(1, maxext) for _ in range(rng.randint(1, maxdim))]
            dst = [rng.randint(1, maxext) for _ in range(rng.randint(0, maxdim))]
        else:
            dd = rng.randint(1, maxdim)
            dst = [rng.randint(1, maxext) for _ in range(dd)]
            sd = rng.randint(1, dd)
            src = [1 if rng.random() < 0.4 else e for e in dst[dd - sd:]]
            if mode == "perturbed":
                if rng.random() < 0.3 and len(dst) > 0:
                    dst = dst[1:] if rng.random() < 0.5 else dst[:-1]
                else:
                    ax = rng.randrange(len(src))
                    src[ax] = rng.choice([e for e in range(1, maxext + 2) if e != src[ax]])
        if int(np.prod(dst)) <= maxsize and int(np.prod(src)) <= 600:
            return src, dst


BASES = (10000, 20000, 30000)


def gen_bto(ctx, quick, b_main, b_fixed):
    rng = ctx.rng
    dom = [tuple(s) for s in (all_shapes(3, 3) if quick else all_shapes(3, 4))]
    base = BASES[0]
    for src in dom:
        for dst in dom:
            if len(src) == 0:
                # scalar source
                for dk in (K_LIST, K_SVEC):
                    b_main.add("bto %d %d %s %s %d" % (A_NUM, dk, fmt_vec(src), fmt_vec(dst), 7), dict(op="bto", sk=A_NUM, dk=dk, src=src, dst=dst, base=7))
                continue
            for sk, dk in ((A_DYN, K_LIST), (A_DYN, K_SVEC), (A_HYB, K_LIST), (A_HYB, K_SVEC)):
                b_main.add("bto %d %d %s %s %d" % (sk, dk, fmt_vec(src), fmt_vec(dst), base), dict(op="bto", sk=sk, dk=dk, src=src, dst=dst, base=base))
            if len(dst) >= 1:
                b_fixed.add("bto %d %d %s %s %d" % (A_DYN, K_ARRAY, fmt_vec(src), fmt_vec(dst), base), dict(op="bto", sk=A_DYN, dk=K_ARRAY, src=src, dst=dst, base=base))
    n = 600 if quick else 25000
    for i in range(n):
        src, dst = gen_srcdst(rng, 8 if i % 5 == 0 else 4, 4, 2048)
        sk = rng.choice([A_DYN, A_DYN, A_HYB]) if len(src) <= 6 else A_DYN
        dk = rng.choice([K_LIST, K_SVEC, K_ARRAY]) if 1 <= len(dst) <= 4 else rng.choice([K_LIST, K_SVEC])
        if dk == K_ARRAY:
            b_fixed.add("bto %d %d %s %s %d" % (A_DYN, dk, fmt_vec(src), fmt_vec(dst), base), dict(op="bto", sk=A_DYN, dk=dk, src=tuple(src), dst=tuple(dst), base=base))
        else:
            b_main.add("bto %d %d %s %s %d" % (sk, dk, fmt_vec(src), fmt_vec(dst), base), dict(op="bto", sk=sk, dk=dk, src=tuple(src), dst=tuple(dst), base=base))


def gen_barr(ctx, quick, b):
    rng = ctx.rng
    dom = [tuple(s) for s in (all_shapes(3, 3, mindim=1) if quick else all_shapes(3, 4, mindim=1))]

    def add2(ka, kb, sa, sb):
        b.add("barr2 %d %d %s %s %d %d" % (ka, kb, fmt_vec(sa), fmt_vec(sb), BASES[0], BASES[1]),
              dict(op="barr2", kinds=(ka, kb), shapes=(tuple(sa), tuple(sb)), bases=BASES[:2]))

    def add3(kb, sa, sb, sc):
        b.add("barr3 %d %s %s %s %d %d %d" % (kb, fmt_vec(sa), fmt_vec(sb), fmt_vec(sc), BASES[0], BASES[1], BASES[2]),
              dict(op="barr3", kinds=(A_DYN, kb, A_DYN), shapes=(tuple(sa), tuple(sb), tuple(sc)), bases=BASES))

    for sa in dom:
        add2(A_DYN, A_NUM, sa, ())
        add2(A_NUM, A_DYN, (), sa)
        for sb in dom:
            add2(A_DYN, A_DYN, sa, sb)
            if quick or rng.random() < 0.3:
                add2(A_DYN, A_HYB, sa, sb)
                add2(A_HYB, A_DYN, sa, sb)
    dom3 = [tuple(s) for s in all_shapes(2, 3, mindim=1)]
    for sa in dom3:
        for sc in dom3:
            add3(A_NUM, sa, (), sc)
            for sb in dom3:
                add3(A_DYN, sa, sb, sc)
    n = 500 if quick else 25000
    for i in range(n):
        hi = (i % 5 == 0)
        while True:
            t = gen_tuple(rng, 2, 7 if hi else 4, 4, pick_mode(rng))
            r = np_bs(t)
            if all(len(s) > 0 for s in t) and (r is None or int(np.prod(r)) <= 2048) and all(int(np.prod(s)) <= 600 for s in t):
                break
        ks = rng.choice([(A_DYN, A_DYN), (A_DYN, A_DYN), (A_DYN, A_HYB), (A_HYB, A_DYN)]) if all(len(s) <= 6 for s in t) else (A_DYN, A_DYN)
        add2(ks[0], ks[1], t[0], t[1])
    for i in range(n):
        hi = (i % 5 == 0)
        while True:
            t = gen_tuple(rng, 3, 7 if hi else 4, 4, pick_mode(rng))
            r = np_bs(t)
            if len(t[0]) > 0 and len(t[2]) > 0 and (r is None or int(np.prod(r)) <= 2048):
                break
        add3(A_NUM if len(t[1]) == 0 else A_DYN, t[0], t[1], t[2])


# ----------------------------------------------------------------------------------------------
# record parsing
# ----------------------------------------------------------------------------------------------
def parse_Y(t):
    t.expect("Y")
    m = t.i()
    h = t.i()
    v = tuple(t.vec()) if h else None
    return m, h, v


def parse_view(t):
    t.expect("M")
    m = t.i()
    t.expect("V")
    v = t.array()
    t.expect("E")
    e = t.array()
    t.expect("C")
    c = t.array()
    cb = None
    if t.peek() == "CB":
        t.s()
        n = t.i()
        cb = [t.i() for _ in range(n)]
    t.expect("O")
    o = t.array()
    oc = None
    if t.peek() == "OC":
        t.s()
        oc = t.array()
    return dict(m=m, v=v, e=e, c=c, cb=cb, o=o, oc=oc)


def fmt_arr(a):
    if a is None:
        return "Nothing"
    return "shape=%s data=%s" % (a["shape"], (a["data"] or [])[:24])


# ----------------------------------------------------------------------------------------------
# the check
# ----------------------------------------------------------------------------------------------
class Checker:
    def __init__(self, ctx):
        self.ctx = ctx
        self.hacc = HookAcc()
        self.table = {}        # (a, b) -> recorded list x list result (tuple) or None (failure reported)
        self.laws = {}         # law name -> instances checked
        self.counts = {}       # op -> records checked
        self.fail_reported = 0
        self.fail_expected = 0
        self.elements = 0
        self.oracle_disagree = 0
        self.crashes = 0
        self.clamps = 0
        self.flavor_runs = {}

    def law(self, name, n=1):
        self.laws[name] = self.laws.get(name, 0) + n

    # ---- one recorded broadcast_shape result against NumPy ----
    def check_bs_result(self, keybase, name, y, shapes, exp, det):
        m, h, v = y
        ctx = self.ctx
        if exp is None:
            self.fail_expected += 1
            if h:
                ctx.violation(keybase + ":missed_failure", "%s%s = %s but the shapes are incompatible (NumPy raises); is_maybe=%d" % (name, list(map(list, shapes)), list(v), m), det)
            else:
                self.fail_reported += 1
        else:
            if not h:
                ctx.violation(keybase + ":false_failure", "%s%s reports failure, NumPy gives %s" % (name, list(map(list, shapes)), list(exp)), det)
            elif v != exp:
                ctx.violation(keybase + ":value", "%s%s = %s, NumPy gives %s" % (name, list(map(list, shapes)), list(v), list(exp)), det)

    def oracle(self, shapes):
        exp = np_bs(shapes)
        if rule_bs(shapes) != exp:
            self.oracle_disagree += 1
        return exp

    def check_bs2(self, m, t, line, fl):
        ctx = self.ctx
        a, b = m["shapes"]
        ka, kb = m["kinds"]
        det = dict(case=dict(m, shapes=[list(a), list(b)]), line=line, flavor=fl)
        exp = self.oracle((a, b))
        cls = bs_class((a, b), exp)
        cfg = "%s,%s" % (KN[ka], KN[kb])
        op = "bs2" if fl == "asan" else "bs2[%s]" % fl
        t.expect("P")
        p = parse_Y(t)
        t.expect("Q")
        q = parse_Y(t)
        t.expect("AA")
        aa = parse_Y(t)
        t.expect("I")
        i_ = parse_Y(t)
        t.expect("J")
        j_ = parse_Y(t)
        self.check_bs_result("%s:%s:%s" % (op, cfg, cls), "broadcast_shape", p, (a, b), exp, det)
        self.check_bs_result("%s:%s,%s:%s" % (op, KN[kb], KN[ka], cls), "broadcast_shape", q, (b, a), exp, det)
        # laws on the recorded results (no reference involved)
        if (p[1], p[2]) != (q[1], q[2]):
            ctx.violation("law:commutative:%s:%s" % (op, ",".join(sorted((KN[ka], KN[kb])))), "bs(%s,%s)=%s but bs(%s,%s)=%s" % (list(a), list(b), p[2], list(b), list(a), q[2]), det)
        self.law("commutative(in-record)")
        if not aa[1] or aa[2] != a:
            ctx.violation("law:idempotent:%s:%s" % (op, KN[ka]), "bs(a,a) with a=%s is %s" % (list(a), aa[2] if aa[1] else "Nothing"), det)
        self.law("idempotent(in-record)")
        for nm_, r_ in (("bs(a,bs(a,b))", i_), ("bs(bs(a,b),b)", j_)):
            if (r_[1], r_[2]) != (p[1], p[2]):
                ctx.violation("law:absorb:%s:%s:%s" % (op, cfg, "compatible" if p[1] else "incompatible"),
                              "%s = %s but bs(a,b) = %s for a=%s b=%s" % (nm_, r_[2] if r_[1] else "Nothing", p[2] if p[1] else "Nothing", list(a), list(b)), det)
            self.law("absorb(in-record, maybe operand)")
        if len(a) == 0 or len(b) == 0:
            other = b if len(a) == 0 else a
            if not p[1] or p[2] != other:
                ctx.violation("law:scalar_neutral:%s:%s" % (op, cfg), "bs(%s,%s) = %s, a scalar shape must be neutral" % (list(a), list(b), p[2] if p[1] else "Nothing"), det)
            self.law("scalar_neutral")
        if m.get("table") and fl == "asan":
            self.table[(a, b)] = p[2] if p[1] else None
        if exp is None or len(exp) > 1:
            ctx.seen(("bs2", fl, ka, kb, a, b))
        if len(ctx.samples) < 2 and exp is not None and len(exp) >= 2 and exp != a and exp != b and ka != kb:
            ctx.sample(dict(op="broadcast_shape", kinds=cfg, a=list(a), b=list(b), has_value=p[1], result=list(p[2]) if p[1] else None))
        if exp is None and sum(1 for s in ctx.samples if isinstance(s, dict) and s.get("has_value") == 0) < 1:
            ctx.sample(dict(op="broadcast_shape", kinds=cfg, a=list(a), b=list(b), has_value=p[1], result=None))

    def check_bsn(self, m, t, line, fl):
        ctx = self.ctx
        shapes = m["shapes"]
        ks = m["kinds"]
        n = len(shapes)
        det = dict(case=dict(m, shapes=[list(s) for s in shapes]), line=line, flavor=fl)
        exp = self.oracle(shapes)
        cls = bs_class(shapes, exp)
        cfg = ",".join(KN[k] for k in ks)
        op = ("bs%d" % n) if fl == "asan" else "bs%d[%s]" % (n, fl)
        recs = {}
        names = ("V", "L", "R") if n == 3 else ("V", "G")
        for nm_ in names:
            t.expect(nm_)
            recs[nm_] = parse_Y(t)
        label = {"V": "broadcast_shape(variadic)", "L": "bs(bs(a,b),c)", "R": "bs(a,bs(b,c))", "G": "bs(bs(a,b),bs(c,d))"}
        for nm_ in names:
            sym = "" if nm_ == "V" else "-" + {"L": "left", "R": "right", "G": "grouped"}[nm_]
            self.check_bs_result("%s%s:%s:%s" % (op, sym, cfg, cls), label[nm_], recs[nm_], shapes, exp, det)
        vals = {nm_: (recs[nm_][1], recs[nm_][2]) for nm_ in names}
        if len(set(vals.values())) != 1:
            ctx.violation("law:associative:%s:%s" % (op, cfg), "groupings disagree for %s: %s" % ([list(s) for s in shapes], {label[k]: (v[1] if v[0] else "Nothing") for k, v in vals.items()}), det)
        self.law("associative(in-record, maybe operands)")
        if exp is None or len(exp) > 1:
            ctx.seen((op, ks, shapes))
        if n == 3 and sum(1 for s in ctx.samples if isinstance(s, dict) and s.get("op") == "broadcast_shape/3") < 1 and exp is not None and len(exp) >= 2 and len(set(shapes)) == 3 and all(len(x) > 0 for x in shapes):
            ctx.sample(dict(op="broadcast_shape/3", kinds=cfg, shapes=[list(s) for s in shapes], variadic=list(recs["V"][2]) if recs["V"][1] else None))
        return vals["V"]

    def check_bsm(self, m, t, line, fl):
        ctx = self.ctx
        a, b = m["shapes"]
        ak, bk = m["kinds"]
        det = dict(case=dict(m, shapes=[list(a), list(b)]), line=line)
        exp = self.oracle((a, b))
        cls = bs_class((a, b), exp)
        t.expect("A")
        echo = tuple(t.vec())
        if echo != tuple(a):
            raise ValueError("operand echo %s != %s" % (echo, a))
        t.expect("P")
        p = parse_Y(t)
        t.expect("Q")
        q = parse_Y(t)
        # one key per (unordered kind pair, compatible?) : both operand orders take the same type-level path
        cls = cls.split("-")[0]
        self.check_bs_result("bsm:%s+%s:%s" % (ak, bk, cls), "broadcast_shape", p, (a, b), exp, det)
        self.check_bs_result("bsm:%s+%s:%s" % (ak, bk, cls), "broadcast_shape", q, (b, a), exp, det)
        if (p[1], p[2]) != (q[1], q[2]):
            ctx.violation("law:commutative:bsm:%s" % ",".join(sorted((ak, bk))), "bs(%s,%s)=%s but bs(%s,%s)=%s" % (list(a), list(b), p[2], list(b), list(a), q[2]), det)
        self.law("commutative(in-record)")
        if len(b) == 0:
            if not p[1] or p[2] != a:
                ctx.violation("law:scalar_neutral:bsm:%s,%s" % (ak, bk), "bs(%s,%s) = %s, a scalar shape must be neutral" % (list(a), list(b), p[2] if p[1] else "Nothing"), det)
            self.law("scalar_neutral")
        if exp is None or len(exp) > 1:
            ctx.seen(("bsm", m["menu"], bk, a, b))
        if sum(1 for s_ in ctx.samples if isinstance(s_, dict) and s_.get("op") == "broadcast_shape(mixed)") < 1 and exp is not None and len(exp) >= 2 and m["menu"] == 5 and exp != a and exp != b and bk == "array":
            ctx.sample(dict(op="broadcast_shape(mixed)", kinds="%s,%s" % (ak, bk), a=list(a), b=list(b), has_value=p[1], result=list(p[2]) if p[1] else None))

    def table_laws(self, dom, triples, quads):
        """metamorphic laws evaluated purely on recorded list x list results (table closed over dom)"""
        ctx = self.ctx
        T = self.table
        missing = 0
        for a in dom:
            for b in dom:
                if (a, b) not in T or (b, a) not in T:
                    missing += 1
                    continue
                r = T[(a, b)]
                if r != T[(b, a)]:
                    ctx.violation("law:commutative:table", "recorded bs(%s,%s)=%s but bs(%s,%s)=%s" % (list(a), list(b), r, list(b), list(a), T[(b, a)]), dict(a=a, b=b))
                self.law("commutative(table)")
                if r is not None:
                    if r in dom_set(dom):
                        for x, y in ((a, r), (r, b), (r, a), (b, r)):
                            if (x, y) in T:
                                if T[(x, y)] != r:
                                    ctx.violation("law:absorb:table", "recorded bs(%s,%s)=%s, then bs(%s,%s)=%s (must stay %s)" % (list(a), list(b), list(r), list(x), list(y), T[(x, y)], list(r)), dict(a=a, b=b))
                                self.law("absorb(table)")
            if (a, a) in T:
                if T[(a, a)] != a:
                    ctx.violation("law:idempotent:table", "recorded bs(a,a)=%s for a=%s" % (T[(a, a)], list(a)), dict(a=a))
                self.law("idempotent(table)")
            for e in ((), ):
                for x, y in ((e, a), (a, e)):
                    if (x, y) in T:
                        if T[(x, y)] != a:
                            ctx.violation("law:scalar_neutral:table", "recorded bs(%s,%s)=%s" % (list(x), list(y), T[(x, y)]), dict(a=a))
                        self.law("scalar_neutral(table)")

        def look(x, y):
            if x is None or y is None:
                return None, True
            if (x, y) not in T:
                return None, False
            return T[(x, y)], True

        for shapes, v in triples:
            a, b, c = shapes
            ab, ok1 = look(a, b)
            l, ok2 = look(ab, c)
            bc, ok3 = look(b, c)
            r, ok4 = look(a, bc)
            if not (ok1 and ok2 and ok3 and ok4):
                continue
            vv = v[1] if v[0] else None
            if not (l == r == vv):
                ctx.violation("law:associative:table", "a=%s b=%s c=%s: T[T[a,b],c]=%s T[a,T[b,c]]=%s recorded bs(a,b,c)=%s" % (list(a), list(b), list(c), l, r, vv), dict(shapes=shapes))
            self.law("associative(table)")
        for shapes, v in quads:
            a, b, c, d = shapes
            ab, ok1 = look(a, b)
            cd, ok2 = look(c, d)
            g, ok3 = look(ab, cd)
            abc, ok4 = look(ab, c)
            s, ok5 = look(abc, d)
            if not (ok1 and ok2 and ok3 and ok4 and ok5):
                continue
            vv = v[1] if v[0] else None
            if not (g == s == vv):
                ctx.violation("law:associative4:table", "shapes %s: T[T[a,b],T[c,d]]=%s T[T[T[a,b],c],d]=%s recorded bs(a,b,c,d)=%s" % ([list(x) for x in shapes], g, s, vv), dict(shapes=shapes))
            self.law("associative4(table)")
        return missing

    # ---- shape_broadcast_to / origin_axes / index::broadcast_to ----
    def check_sbt(self, m, t, line, fl):
        ctx = self.ctx
        src, dst = m["src"], m["dst"]
        ks = m["kinds"]
        det = dict(case=dict(m, src=list(src), dst=list(dst)), line=line)
        nsrc = int(np.prod(src))
        lab = np.arange(nsrc).reshape(src)
        exp = np_bto(lab, dst)
        cls = bto_class(src, dst, exp)
        base = "shape_broadcast_to:%s,%s:%s" % (KN[ks[0]], KN[ks[1]], cls)
        t.expect("T")
        mb = t.i()
        has = t.i()
        if exp is None:
            self.fail_expected += 1
            if has:
                ctx.violation(base + ":missed_failure", "shape_broadcast_to(%s -> %s) succeeds, NumPy raises (is_maybe=%d)" % (list(src), list(dst), mb), det)
            else:
                self.fail_reported += 1
                ctx.seen(("sbt", ks, src, dst))
            return
        if not has:
            ctx.violation(base + ":false_failure", "shape_broadcast_to(%s -> %s) reports failure, NumPy accepts" % (list(src), list(dst)), det)
            return
        t.expect("SH")
        sh = tuple(t.vec())
        t.expect("FA")
        fa = t.vec()
        t.expect("OA")
        oa = t.vec()
        t.expect("IDX")
        n = t.i()
        if sh != tuple(dst):
            ctx.violation(base + ":shape", "shape_broadcast_to(%s -> %s) returns shape %s" % (list(src), list(dst), list(sh)), det)
        off = len(dst) - len(src)
        bad_fa = len(fa) != len(dst)
        if not bad_fa:
            for j in range(len(dst)):
                must_free = j < off or src[j - off] != dst[j]
                must_keep = j >= off and src[j - off] == dst[j] and dst[j] > 1
                if (must_free and not fa[j]) or (must_keep and fa[j]):
                    bad_fa = True
        if bad_fa:
            ctx.violation(base + ":free_axes", "free axes of %s -> %s are %s" % (list(src), list(dst), fa), det)
        elif oa != [j for j in range(len(dst)) if not fa[j]]:
            ctx.violation(base + ":origin_axes", "origin axes of %s -> %s are %s with free axes %s" % (list(src), list(dst), oa, fa), det)
        if n:
            flat = exp.reshape(-1)
            if n != flat.size:
                ctx.violation("index_broadcast_to:%s,%s:valid:count" % (KN[ks[0]], KN[ks[1]]), "enumerated %d of %d" % (n, flat.size), det)
                return
            st = np.unravel_index(flat, src) if len(src) else ()
            expidx = np.stack(st, axis=1).tolist() if len(src) else [[]] * n
            for k in range(n):
                got = t.vec()
                if got != expidx[k]:
                    di = np.unravel_index(k, dst)
                    ctx.violation("index_broadcast_to:%s,%s:valid:src_index" % (KN[ks[0]], KN[ks[1]]),
                                  "index::broadcast_to(%s; src %s, dst %s) = %s expected %s" % ([int(x) for x in di], list(src), list(dst), got, expidx[k]), det)
                    break
            self.elements += n
        if int(np.prod(dst)) > 1:
            ctx.seen(("sbt", ks, src, dst))
        if sum(1 for s in ctx.samples if isinstance(s, dict) and s.get("op") == "shape_broadcast_to") < 1 and off > 0 and n > 2 and len(oa) > 0 and 1 in fa[off:]:
            ctx.sample(dict(op="shape_broadcast_to", src=list(src), dst=list(dst), free_axes=fa, origin_axes=oa, src_indices_checked=n))

    # ---- views ----
    def check_view(self, base, what, rec, exp, det, can_fail=True):
        """rec: parsed emit_view_all record; exp: numpy array or None (NumPy raises)"""
        ctx = self.ctx
        v = rec["v"]
        if exp is None:
            self.fail_expected += 1
            if v is not None:
                ctx.violation(base + ":missed_failure", "%s yields a view (%s, is_maybe=%d) where NumPy raises" % (what, fmt_arr(v), rec["m"]), det)
            else:
                self.fail_reported += 1
            return False
        if v is None:
            ctx.violation(base + ":false_failure", "%s reports Nothing, NumPy gives shape %s" % (what, list(exp.shape)), det)
            return False
        eshape = list(exp.shape)
        if exp.ndim == 0:
            if v["shape"] != []:
                ctx.violation(base + ":shape", "%s has shape %s expected []" % (what, v["shape"]), det)
            elif v["data"] and v["data"] != [int(exp)]:
                ctx.violation(base + ":elements", "%s (0-dim) holds %s expected %s" % (what, v["data"], int(exp)), det)
            return True
        eflat = exp.reshape(-1).tolist()
        if v["shape"] != eshape:
            ctx.violation(base + ":shape", "%s has shape %s expected %s" % (what, v["shape"], eshape), det)
        elif v["data"] is not None and v["data"] != eflat:
            k = next(i for i, (x, y) in enumerate(zip(v["data"], eflat)) if x != y)
            ctx.violation(base + ":elements", "%s element at %s is %s expected %s (view %s)" % (what, [int(x) for x in np.unravel_index(k, exp.shape)], v["data"][k], eflat[k], fmt_arr(v)), det)
        if v["data"] is not None:
            self.elements += len(v["data"])
        for route, name in (("e", "eval_row"), ("c", "eval_col"), ("o", "eval_out"), ("oc", "eval_out_colmajor")):
            r = rec.get(route)
            if r is None:
                if route in ("o", "oc"):
                    continue
                ctx.violation(base + ":" + name, "%s: evaluation (%s) gives Nothing" % (what, name), det)
                continue
            if r.get("scalar"):
                continue
            if r["shape"] != eshape or (r["data"] is not None and r["data"] != eflat):
                ctx.violation(base + ":" + name, "%s: evaluation (%s) gives %s expected shape=%s data=%s" % (what, name, fmt_arr(r), eshape, eflat[:24]), det)
        if rec["cb"] is not None and len(rec["cb"]) > 0:
            if rec["cb"] != exp.flatten("F").tolist():
                ctx.violation(base + ":eval_col_buffer", "%s: column-major buffer is %s expected %s" % (what, rec["cb"][:24], exp.flatten("F").tolist()[:24]), det)
        return True

    def check_bto(self, m, t, line, fl):
        ctx = self.ctx
        src, dst = m["src"], m["dst"]
        det = dict(case=dict(m, src=list(src), dst=list(dst)), line=line)
        if m["sk"] == A_NUM:
            lab = np.array(m["base"])
        else:
            n = int(np.prod(src))
            lab = np.arange(m["base"], m["base"] + n).reshape(src)
        exp = np_bto(lab, dst)
        cls = bto_class(src, dst, exp)
        base = "broadcast_to:%s->%s:%s" % (AN[m["sk"]], KN[m["dk"]], cls)
        rec = parse_view(t)
        self.check_view(base, "broadcast_to(%s %s, %s)" % (AN[m["sk"]], list(src), list(dst)), rec, exp, det)
        if exp is None or exp.size > 1:
            ctx.seen(("bto", m["sk"], m["dk"], src, dst))
        if sum(1 for s in ctx.samples if isinstance(s, dict) and s.get("op") == "view::broadcast_to") < 1 and exp is not None and exp.size >= 4 and len(dst) > len(src) >= 1 and int(np.prod(src)) > 1:
            ctx.sample(dict(op="view::broadcast_to", src=list(src), dst=list(dst), view=rec["v"]["data"][:16] if rec["v"] else None))
        if sum(1 for s in ctx.samples if isinstance(s, dict) and s.get("op") == "view::broadcast_to(invalid)") < 1 and exp is None:
            ctx.sample(dict(op="view::broadcast_to(invalid)", src=list(src), dst=list(dst), is_maybe=rec["m"], has_value=rec["v"] is not None))

    def check_barr(self, m, t, line, fl):
        ctx = self.ctx
        shapes = m["shapes"]
        ks = m["kinds"]
        n = len(shapes)
        det = dict(case=dict(m, shapes=[list(s) for s in shapes]), line=line)
        arrs = []
        for s, k, bse in zip(shapes, ks, m["bases"]):
            if k == A_NUM:
                arrs.append(np.array(bse))
            else:
                arrs.append(np.arange(bse, bse + int(np.prod(s))).reshape(s))
        try:
            exp = np.broadcast_arrays(*arrs)
        except ValueError:
            exp = None
        cls = ("compatible" if exp is not None else "incompatible") + "-" + dimclass(shapes)
        base = "broadcast_arrays%d:%s:%s" % (n, ",".join(AN[k] for k in ks), cls)
        t.expect("R")
        mb = t.i()
        has = t.i()
        what = "broadcast_arrays(%s)" % ", ".join("%s %s" % (AN[k], list(s)) for k, s in zip(ks, shapes))
        if exp is None:
            self.fail_expected += 1
            if has:
                ctx.violation(base + ":missed_failure", "%s yields views where NumPy raises (is_maybe=%d)" % (what, mb), det)
            else:
                self.fail_reported += 1
            ctx.seen(("barr", ks, shapes))
            return
        if not has:
            ctx.violation(base + ":false_failure", "%s reports Nothing, NumPy gives shape %s" % (what, list(exp[0].shape)), det)
            return
        cnt = t.i()
        if cnt != n:
            ctx.violation(base + ":arity", "%s returns %d views" % (what, cnt), det)
            return
        for k in range(n):
            rec = parse_view(t)
            self.check_view(base, "%s[%d]" % (what, k), rec, exp[k], det)
        if exp[0].size > 1:
            ctx.seen(("barr", ks, shapes))
        if sum(1 for s in ctx.samples if isinstance(s, dict) and s.get("op") == "view::broadcast_arrays") < 1 and n == 2 and exp[0].size >= 4 and shapes[0] != shapes[1] and min(int(np.prod(s)) for s in shapes) > 1:
            ctx.sample(dict(op="view::broadcast_arrays", shapes=[list(s) for s in shapes], result_shape=list(exp[0].shape)))

    # ---- running one binary ----
    def run_binary(self, binary, batch, fl, handler, env_extra=None):
        ctx = self.ctx
        results, crashes, touts = R.run_cases(binary, batch.cases, env_extra=env_extra)
        self.flavor_runs[fl] = self.flavor_runs.get(fl, 0) + len(results)
        for c in crashes:
            m = batch.meta.get(c.case_id, {})
            self.crashes += 1
            if m:
                op = m["op"] if fl == "asan" else "%s[%s]" % (m["op"], fl)
                ctx.violation("%s:%s:crash:%s" % (op, kinds_str(m), c.kind()),
                              "process died instead of reporting a result in case %s: %s" % (short(m), c.kind()), dict(case=short(m), stderr=c.stderr[-3000:]))
            else:
                ctx.violation("runner[%s]:crash:%s" % (fl, c.kind()), "harness process died outside a case: %s" % c.kind(), dict(stderr=c.stderr[-3000:]))
        for t_ in touts:
            ctx.inconc("timeout in case %s" % (short(batch.meta.get(t_, {})) or t_,))
        missing = 0
        ret = {}
        for cid, line in batch.cases:
            m = batch.meta[cid]
            if cid not in results:
                missing += 1
                continue
            toks, hooks = split_hooks(results[cid])
            ctx.ev()
            self.counts[m["op"]] = self.counts.get(m["op"], 0) + 1
            for (s, v, f0, f1) in self.hacc.add(hooks):
                if s == 6:
                    # clipped-integer clamping is not a bounds event: it also happens on values that are discarded
                    # (failing broadcasts); its consequences are decided by the value oracle
                    self.clamps += v
                    continue
                ctx.violation("%s:hook:%s" % (m["op"], SITE_NAMES.get(s, s)), "hook %s reported index %d outside bound %d in %s" % (SITE_NAMES.get(s, s), f0, f1, short(m)), dict(case=short(m), line=line))
            try:
                if "EXC" in toks:
                    k = toks.index("EXC")
                    ctx.violation("%s:%s:exception" % (m["op"] if fl == "asan" else "%s[%s]" % (m["op"], fl), kinds_str(m)),
                                  "exception escaped the library instead of a reported result in %s: %s" % (short(m), " ".join(toks[k:k + 2])), dict(case=short(m), line=line))
                    continue
                if "ERR" in toks:
                    raise ValueError("harness error record: " + " ".join(toks[:8]))
                ret[cid] = handler(m, Tok(toks), line, fl)
            except (ValueError, IndexError) as e:
                ctx.violation("%s:malformed" % m["op"], "unparsable record %s: %s" % (" ".join(toks[:30]), e), dict(case=short(m), line=line))
        crashed = {c.case_id for c in crashes}
        if missing > len(crashed) + len(touts):
            ctx.inconc("%d cases of %s produced no record" % (missing - len(crashed), batch.prefix))
        return ret


def dom_set(dom, _cache={}):
    k = id(dom)
    if k not in _cache:
        _cache[k] = set(dom)
    return _cache[k]


def kinds_str(m):
    if m["op"] == "bto":
        return "%s->%s" % (AN[m["sk"]], KN[m["dk"]])
    if m["op"] == "bsm":
        return ",".join(m["kinds"])
    names = AN if m["op"].startswith("barr") else KN
    return ",".join(names[k] for k in m["kinds"])


def short(m):
    return {k: (list(map(list, v)) if k == "shapes" else (list(v) if isinstance(v, tuple) else v)) for k, v in m.items()} if m else m


def run(ctx):
    quick = ctx.tier == "quick"
    specs = [(n, "asan") for n in IDX_TARGETS + VIEW_TARGETS] + [("c06_index", "nostl"), ("c06_index_n", "nostl"), ("c06_index", "clang")]
    targets = []
    for n, fl in specs:
        targets += harness_targets([n], fl)
    bins = build_or_fail(targets)
    ck = Checker(ctx)
    noleak = {"ASAN_OPTIONS": R.ENV_SAN["ASAN_OPTIONS"].replace("detect_leaks=1", "detect_leaks=0")}

    # ---- index level: pairs
    bp = Batch("p")
    dom = gen_pairs(ctx, quick, bp)
    ck.run_binary(bins[("c06_index", "asan")], bp, "asan", ck.check_bs2)
    # other configurations on a deterministic subset (quick: every case; thorough: every 4th)
    sub = Batch("p")
    sub.cases = bp.cases if quick else bp.cases[::4]
    sub.meta = bp.meta
    ck.run_binary(bins[("c06_index", "nostl")], sub, "nostl", ck.check_bs2, env_extra=noleak)
    ck.run_binary(bins[("c06_index", "clang")], sub, "clang", ck.check_bs2)

    # ---- index level: triples / quads
    bt = Batch("t")
    gen_triples(ctx, quick, bt)
    vals = ck.run_binary(bins[("c06_index_n", "asan")], bt, "asan", ck.check_bsn)
    sub = Batch("t")
    sub.cases = bt.cases if quick else bt.cases[::4]
    sub.meta = bt.meta
    ck.run_binary(bins[("c06_index_n", "nostl")], sub, "nostl", ck.check_bsn, env_extra=noleak)
    triples = [(bt.meta[c]["shapes"], v) for c, v in vals.items() if bt.meta[c]["op"] == "bs3" and bt.meta[c]["kinds"] == (K_LIST,) * 3]
    quads = [(bt.meta[c]["shapes"], v) for c, v in vals.items() if bt.meta[c]["op"] == "bs4" and bt.meta[c]["kinds"] == (K_LIST,) * 4]
    if not quick:
        # sampled triples of any kind whose operands lie in the table's domain
        ds = set(dom)
        triples += [(bt.meta[c]["shapes"], v) for c, v in vals.items() if bt.meta[c]["op"] == "bs3" and bt.meta[c]["kinds"] != (K_LIST,) * 3 and all(s in ds for s in bt.meta[c]["shapes"])]
    missing = ck.table_laws(dom, triples, quads)
    if missing and not ck.crashes:
        ctx.inconc("%d list x list pairs missing from the recorded table" % missing)

    # ---- index level: constant / clipped x run-time
    bx = Batch("m")
    gen_mixed(ctx, quick, bx)
    ck.run_binary(bins[("c06_index_ct", "asan")], bx, "asan", ck.check_bsm)

    # ---- index level: shape_broadcast_to / index::broadcast_to
    bs = Batch("s")
    gen_sbt(ctx, quick, bs)
    ck.run_binary(bins[("c06_index_to", "asan")], bs, "asan", ck.check_sbt)

    # ---- view level
    bm, bf = Batch("v"), Batch("f")
    gen_bto(ctx, quick, bm, bf)
    ck.run_binary(bins[("c06_bto", "asan")], bm, "asan", ck.check_bto)
    ck.run_binary(bins[("c06_bto_fixed", "asan")], bf, "asan", ck.check_bto)
    ba = Batch("a")
    gen_barr(ctx, quick, ba)
    ck.run_binary(bins[("c06_barr", "asan")], ba, "asan", ck.check_barr)

    nd = "3 / extents 1..3" if quick else "4 / extents 1..4"
    ctx.rule = ("exhaustive: broadcast_shape over all ordered pairs of shapes of dim 0..%s (%d^2 pairs; quick: every kind combination of list/array<N>/static_vector/list<int>/None, "
                "thorough: list x list + one random kind combination per pair), all triples over dim 0..2 / extents 1..3 x 6 kind menus, all 4-tuples over dim 0..2 / extents 1..2; "
                "shape_broadcast_to + index::broadcast_to, view::broadcast_to (dynamic / hybrid / scalar source; list / static_vector / array<N> target) over every (source, target) pair of the small scope incl. invalid targets; "
                "view::broadcast_arrays over all pairs (dim 1..3) and triples (dim 1..2) incl. scalar operands; seeded: sampled tuples with dims up to 8 (compatible-by-construction, perturbed, uniform). "
                "distinct = (op, kinds, shapes) tuples whose expected result has more than one element or is a failure" % (nd, len(dom)))
    ctx.exhaustive = False
    ctx.set("hook_events", ck.hacc.summary())
    ctx.set("crashes_contained", ck.crashes)
    ctx.set("clipped_integer_clamp_events", ck.clamps)
    ctx.set("records_per_op", ck.counts)
    ctx.set("records_per_build", ck.flavor_runs)
    ctx.set("law_instances_checked", ck.laws)
    ctx.set("failures_expected_by_numpy", ck.fail_expected)
    ctx.set("failures_reported_by_library", ck.fail_reported)
    ctx.set("elements_compared", ck.elements)
    ctx.set("table_entries", len(ck.table))
    ctx.set("oracle_self_check", "numpy.broadcast_shapes vs literal rule: %d disagreements" % ck.oracle_disagree)
    if ck.oracle_disagree:
        ctx.inconc("reference models disagree with each other in %d cases" % ck.oracle_disagree)
    if ck.hacc.events.get(2, 0) == 0:
        ctx.inconc("view index hook never fired")
    if ck.fail_expected == 0 or not ck.laws:
        ctx.inconc("no failing combination / no law instance was observed")
