"""C07: element-wise functions apply the library's scalar operation to the broadcast operands (shape, element, element type; outer)."""
import itertools
import math

import numpy as np

from .. import viewrun as V
from ..util import Tok, fmt_vec, HookAcc, DTYPES
from ..c07_table import OPS, BY_OPNAME, NPT, LD, NOT_COMPILABLE, opname, c_common, c_promote
from ..c07_table import HARNESS as _TABLE_HARNESS

HARNESS = list(_TABLE_HARNESS) + ["c07_kinds"]

CLAIM = dict(
    technique="runtime monitoring: sanitizer-instrumented execution of every element-wise function on operands with unique values; two-layer oracle - (1) NumPy-broadcast index labels designate which operand elements feed each output element and the library's own scalar functor, applied to exactly those scalars in a plain loop, gives the reference element (exact comparison: same bits up to the sign of zero), (2) NumPy's ufunc / extended-precision formula as a cross-check where semantics coincide with C++",
    text="All 70 ufuncs except clip (does not compile on the unchanged tree), where (condition of type uint8/uint16/int32/int64/float/double with a value domain weighted towards non-zero values whose low byte / low 16 bits / integer part is zero; x,y int32/float/double), the 18 activations (default and explicit parameters) and the 11 outer_* wrappers (+ generic view::outer) are executed as lazy views on dynamic ndarrays / scalars / transposed and sliced views with data from the case file. For every case: result shape == NumPy broadcast shape (outer: shape(a)+shape(b)); element i == scalar_functor(operand elements NumPy's broadcasting designates for i) exactly (same bits up to the sign of zero); element type of the view and of view(i...) == decltype(scalar_functor(a,b)); values cross-checked against NumPy (exact for +,-,*,/,comparisons,logical,bitwise,min/max,rounding,sqrt; <=4 ulp against a long-double reference for libm-backed functions; 64 eps for composite activation formulas). ASan/UBSan/libstdc++ assertions and the bounds hooks watch the same executions. Held-on-observed.",
    note="Trusted: NumPy broadcasting of label arrays, the harness' own odometer, C++ usual arithmetic conversions as implemented in c07_table.c_common. Only dynamic ndarrays, scalars and transpose/slice views are operands (other kinds: C09). One float and one int element type per function plus 8 mixed pairs on a reduced op set. Domains (division by zero, shift counts, pow/log arguments, signed overflow) are generator preconditions. view::clip is not exercised: it does not compile for any operand kind (baseline tests commented out).",
    ref="DESIGN.md 4/C07")
TARGETS_QUICK = [(h, "asan") for h in HARNESS]

I4MIN, I4MAX = -2 ** 31, 2 ** 31 - 1


# ------------------------------------------------------------------------------------------------ data
def _ipool(tag, dom):
    info = np.iinfo(NPT[tag])
    lo, hi = int(info.min), int(info.max)
    small = tag in ("i1", "u1", "i2", "u2")
    unsigned = tag[0] == "u"
    if dom == "act":
        return list(range(-12, 13))
    if dom == "cond":
        p = [0] * 6 + [1, -1 if not unsigned else 1, 2, 3, 255, 127]
        for k in (8, 9, 12, 15, 16, 24, 31, 32, 40, 62):
            for m in (1, 3, -1, -2):
                v = m * (1 << k)
                if lo <= v <= hi:
                    p += [v, v]
        return p
    if dom in ("any", "any0", "nz"):
        if small:
            p = list(range(max(lo, -128), min(hi, 255) + 1)) + [lo, hi]
        elif unsigned:
            p = list(range(0, 600)) + [hi, hi - 1, hi // 2, hi // 2 + 1]
        else:
            p = list(range(-300, 301))
        if dom == "nz":
            p = [x for x in p if x != 0]
        return sorted(set(p))
    if dom == "ext":
        p = list(range(max(lo, -40), min(hi, 40) + 1)) + [lo, hi, lo + 1, hi - 1, hi // 2]
        return sorted(set(p))
    if dom == "pos":
        return list(range(1, min(hi, 300) + 1))
    if dom == "nn":
        return list(range(0, min(hi, 300) + 1))
    if dom == "unit":
        return [0, 1] if unsigned else [-1, 0, 1]
    if dom == "unit_open":
        return [0]
    if dom == "ge1":
        return list(range(1, min(hi, 300) + 1))
    if dom == "gtm1":
        return list(range(0, min(hi, 300) + 1))
    if dom == "small":
        return list(range(0 if unsigned else -4, 5))
    if dom == "shift":
        return list(range(0, 9))
    if dom == "shl":
        return list(range(0, 1001))
    if dom == "pw_base":
        return list(range(1, 10))
    if dom == "pw_exp":
        return list(range(0, 6))
    if dom == "ldexp_e":
        return list(range(-8, 9))
    if dom == "special":
        return list(range(-20, 21))
    raise KeyError(dom)


def _fpool(tag, dom):
    g = [k / 16.0 for k in range(-160, 161)]
    if dom == "cond":
        return [0.0] * 6 + [-0.0, 1.0, -1.0, 0.5, -0.5, 0.25, -0.25, 0.999, 2.0 ** -20, -(2.0 ** -20), 2.0 ** -120, 256.0, -512.0, 65536.0, 256.5,
                            4294967296.0, 0.0625, 3.0, -7.5]
    if dom in ("any", "any0"):
        return g
    if dom == "act":
        # activations: the grid plus (with weight) the break points of the piecewise definitions and of the tested parameters
        brk = [0.0, 0.5, -0.5, 1.0, -1.0, 3.0, -3.0, 6.0, 2.5, -2.5, 0.125, -0.125, 2.0, -2.0, 4.0, -6.0, 5.0, 8.0, 0.0625, -0.0625]
        return g + brk * 3
    if dom == "nz":
        return [x for x in g if x != 0]
    if dom == "pos" or dom == "pw_base":
        return [x for x in g if x > 0]
    if dom == "nn":
        return [x for x in g if x >= 0]
    if dom == "unit":
        return [k / 64.0 for k in range(-64, 65)]
    if dom == "unit_open":
        return [k / 64.0 for k in range(-63, 64)]
    if dom == "ge1":
        return [x for x in g if x >= 1]
    if dom == "gtm1":
        return [x for x in g if x > -1] + [-0.984375, -0.5]
    if dom == "small" or dom == "pw_exp":
        return [k / 8.0 for k in range(-32, 33)]
    if dom == "ext":
        fi = np.finfo(NPT[tag])
        return g + [float("inf"), float("-inf"), -0.0, float(fi.max), -float(fi.max), float(fi.tiny), float(fi.tiny) / 4]
    if dom == "special":
        return g[::4] + [float("nan"), float("inf"), float("-inf"), -0.0, 0.0] * 6
    raise KeyError(dom)


def gen_data(rng, tag, dom, n):
    if tag == "b1":
        return np.array([rng.random() < 0.5 for _ in range(n)], dtype=np.bool_)
    pool = _fpool(tag, dom) if tag[0] == "f" else _ipool(tag, dom)
    if len(pool) >= n and dom not in ("special",):
        vals = rng.sample(pool, n)
    else:
        vals = [rng.choice(pool) for _ in range(n)]
    if dom == "any0":
        vals = [0 if rng.random() < 0.3 else v for v in vals]
    if tag in ("u8",):
        return np.array([int(v) for v in vals], dtype=np.uint64)
    return np.array(vals, dtype=NPT[tag])


def fmt_val(v, tag):
    if tag[0] == "f":
        f = float(v)
        if f != f:
            return "nan"
        if f in (float("inf"), float("-inf")):
            return "inf" if f > 0 else "-inf"
        return f.hex()
    return str(int(v))


def fmt_data(a, tag):
    flat = a.reshape(-1)
    return "%d %s" % (flat.size, " ".join(fmt_val(v, tag) for v in flat)) if flat.size else "0"


# ------------------------------------------------------------------------------------------------ shapes
def _all_shapes(maxdim, maxext, mindim=0):
    for d in range(mindim, maxdim + 1):
        for s in itertools.product(range(1, maxext + 1), repeat=d):
            yield tuple(s)


def bclass(shapes):
    """coarse class of a broadcast (argument class of the violation keys)"""
    dims = [len(s) for s in shapes]
    if all(d == 0 for d in dims):
        return "scalars"
    if any(d == 0 for d in dims):
        return "scalar_opd"
    if len(set(shapes)) == 1:
        return "same"
    if len(set(dims)) > 1:
        return "rank_ext"
    return "stretch"


_PAIR_CACHE = {}


def shape_pairs(maxdim, maxext):
    key = (maxdim, maxext)
    if key not in _PAIR_CACHE:
        shapes = list(_all_shapes(maxdim, maxext, 1))
        out = {"same": [], "rank_ext_l": [], "rank_ext_r": [], "stretch_mid": [], "stretch": []}
        for sa in shapes:
            for sb in shapes:
                try:
                    np.broadcast_shapes(sa, sb)
                except ValueError:
                    continue
                if sa == sb:
                    out["same"].append((sa, sb))
                elif len(sa) < len(sb):
                    out["rank_ext_l"].append((sa, sb))
                elif len(sa) > len(sb):
                    out["rank_ext_r"].append((sa, sb))
                else:
                    mid = any(0 < k < len(sa) - 1 and sa[k] != sb[k] for k in range(len(sa)))
                    out["stretch_mid" if mid else "stretch"].append((sa, sb))
        _PAIR_CACHE[key] = out
    return _PAIR_CACHE[key]


def sample_pairs(rng, k, maxdim, maxext):
    cls = shape_pairs(maxdim, maxext)
    names = ["same", "rank_ext_l", "rank_ext_r", "stretch_mid", "stretch"]
    out = []
    for i in range(k):
        c = names[i % len(names)] if i < len(names) else rng.choice(names)
        out.append(rng.choice(cls[c]))
    return out


def sample_triples(rng, k, maxdim, maxext):
    shapes = list(_all_shapes(maxdim, maxext, 1))
    out = []
    while len(out) < k:
        t = tuple(rng.choice(shapes) for _ in range(3))
        if len(out) % 3 == 0:
            # derive mutually broadcastable triple from a common target
            tgt = rng.choice(shapes)
            t = []
            for _ in range(3):
                d = rng.randint(1, len(tgt))
                s = tuple(e if rng.random() < 0.6 else 1 for e in tgt[len(tgt) - d:])
                t.append(s)
            t = tuple(t)
        try:
            np.broadcast_shapes(*t)
        except ValueError:
            continue
        out.append(t)
    return out


# ------------------------------------------------------------------------------------------------ operands
class Opd:
    """one operand: kind A/S/T/L, element tag, base shape, base data (flat), aux; logical labels = indices into base data"""

    def __init__(self, kind, tag, base_shape, data, aux=None):
        self.kind, self.tag, self.base_shape, self.data, self.aux = kind, tag, tuple(base_shape), data, aux

    def labels(self):
        n = int(np.prod(self.base_shape)) if len(self.base_shape) else 1
        base = np.arange(n).reshape(self.base_shape)
        if self.kind == "T":
            return base.transpose(self.aux)
        if self.kind == "L":
            return base[tuple(slice(s, e) for s, e in zip(*self.aux))]
        return base

    def values(self):
        return self.data.reshape(-1)[self.labels()]

    def tokens(self):
        t = "%s %s" % (fmt_vec(self.base_shape), fmt_data(self.data, self.tag))
        if self.kind == "T":
            t += " " + fmt_vec(self.aux)
        if self.kind == "L":
            t += " %s %s" % (fmt_vec(self.aux[0]), fmt_vec(self.aux[1]))
        return t

    def meta(self):
        return dict(kind=self.kind, tag=self.tag, base_shape=list(self.base_shape), data=[fmt_val(v, self.tag) for v in self.data.reshape(-1)],
                    aux=self.aux)


def make_opd(rng, kind, tag, dom, shape):
    """operand whose logical shape is `shape`"""
    shape = tuple(shape)
    if kind == "S":
        return Opd("S", tag, (), gen_data(rng, tag, dom, 1))
    if kind == "A":
        return Opd("A", tag, shape, gen_data(rng, tag, dom, int(np.prod(shape))))
    if kind == "T":
        d = len(shape)
        perm = list(range(d))
        rng.shuffle(perm)
        if d >= 2 and perm == sorted(perm):
            perm = perm[::-1]
        base = [0] * d
        for i, p in enumerate(perm):
            base[p] = shape[i]
        return Opd("T", tag, base, gen_data(rng, tag, dom, int(np.prod(base))), [int(p) for p in perm])
    if kind == "L":
        starts, stops, base = [], [], []
        for e in shape:
            lo = rng.randint(0, 2)
            hi = rng.randint(0, 2)
            starts.append(lo)
            stops.append(lo + e)
            base.append(lo + e + hi)
        return Opd("L", tag, base, gen_data(rng, tag, dom, int(np.prod(base))), (starts, stops))
    raise KeyError(kind)


def opd_from_meta(d):
    tag = d["tag"]
    if tag[0] == "f":
        vals = [float.fromhex(x) if "x" in x else float(x) for x in d["data"]]
    else:
        vals = [int(x) for x in d["data"]]
    aux = d["aux"]
    if d["kind"] == "L":
        aux = (list(aux[0]), list(aux[1]))
    return Opd(d["kind"], tag, d["base_shape"], np.array(vals, dtype=NPT[tag]), aux)


FORMS = {1: ["A", "S", "T", "L"], 2: ["AA", "AS", "SA", "SS", "TA", "AL", "TL"], 3: ["AAA", "ASS", "SAA", "AAS", "ASA", "TAL", "SSS"]}


def forms_of(mask, ar):
    if mask == "OUTER":
        return ["AA"]
    return [m.strip()[2:] for m in mask.split("|")]


# ------------------------------------------------------------------------------------------------ cases
def build_case(o, types, form, opds, params=None):
    name = opname(o, types)
    if o["outer"]:
        args = " ".join(x.tokens() for x in opds)
    else:
        labs = np.broadcast_arrays(*[x.labels() for x in opds])
        inter = np.stack([l.reshape(-1) for l in labs], axis=1).reshape(-1)
        args = "%s %s %s" % (form, " ".join(x.tokens() for x in opds), fmt_vec(inter))
    if o["params"]:
        args = "%d %s %s" % (len(params), " ".join(float(p).hex() for p in params), args)
    return dict(op=name, args=args, form=form, opds=[x.meta() for x in opds], params=list(params) if params else None,
                shapes=[list(x.labels().shape) for x in opds])


def gen_cases(rng, tier):
    quick = tier == "quick"
    maxdim, maxext = (3, 3) if quick else (4, 4)
    cases = []
    for o in OPS:
        for types, mask in o["variants"]:
            name = opname(o, types)
            provenance = name in ("uf_add_i4i4", "uf_subtract_i4i4", "out_subtract_i4i4")
            for form in forms_of(mask, o["ar"]):
                nsc = form.count("S")
                if o["outer"]:
                    shapes = list(_all_shapes(2, 3, 1)) if quick else list(_all_shapes(3, 3, 1))
                    prs = [(sa, sb) for sa in shapes for sb in shapes]
                    if not provenance or not quick:
                        prs = rng.sample(prs, 8 if quick else 150)
                    for sa, sb in prs:
                        opds = [make_opd(rng, "A", types[0], o["dom"][0], sa), make_opd(rng, "A", types[1], o["dom"][1], sb)]
                        cases.append(build_case(o, types, "AA", opds))
                    continue
                if o["ar"] == 1:
                    if form == "S":
                        shp = [()] * (2 if quick else 10)
                    else:
                        shp = list(_all_shapes(maxdim, maxext, 1))
                        k = (5 if quick else 60) if form == "A" else (6 if quick else 80)
                        shp = rng.sample(shp, min(k, len(shp)))
                    for s in shp:
                        ps = rng.choice(o["params"]) if o["params"] else None
                        cases.append(build_case(o, types, form, [make_opd(rng, form, types[0], o["dom"][0], s)], ps))
                    continue
                if o["ar"] == 2:
                    if nsc == 2:
                        prs = [((), ())] * (2 if quick else 10)
                    elif nsc == 1:
                        shp = rng.sample(list(_all_shapes(maxdim, maxext, 1)), 4 if quick else 60)
                        prs = [((), s) if form[0] == "S" else (s, ()) for s in shp]
                    elif provenance and form == "AA":
                        allp = shape_pairs(3, 3)
                        prs = [p for c in allp.values() for p in c]
                        if not quick:
                            prs = prs + sample_pairs(rng, 3000, 4, 4)
                    else:
                        k = (10 if form == "AA" else 8) if quick else (300 if form == "AA" else 150)
                        prs = sample_pairs(rng, k, maxdim, maxext)
                    for sa, sb in prs:
                        opds = [make_opd(rng, form[0], types[0], o["dom"][0], sa), make_opd(rng, form[1], types[1], o["dom"][1], sb)]
                        cases.append(build_case(o, types, form, opds))
                    continue
                # ternary
                if nsc == 3:
                    trs = [((), (), ())]
                else:
                    trs = sample_triples(rng, 12 if quick else 300, maxdim, maxext)
                    trs = [tuple(() if form[i] == "S" else t[i] for i in range(3)) for t in trs]
                for t in trs:
                    opds = [make_opd(rng, form[i], types[i], o["dom"][i], t[i]) for i in range(3)]
                    cases.append(build_case(o, types, form, opds))
    cases += anchor_cases()
    return cases + gen_kind_cases(rng, tier)


def anchor_cases():
    """fixed (seed-independent) cases for argument classes in which a listed finding lives, so that its key is re-observed under every seed"""
    out = []
    o, types, mask = BY_OPNAME["uf_power_f4i8"]
    base = np.array([17.4375, 2.3125, 9.5625, 0.8125], dtype=np.float32)
    for form in forms_of(mask, 2):
        a = Opd("S", "f4", (), base[:1]) if form[0] == "S" else Opd("A", "f4", (4,), base)
        b = Opd("S", "i8", (), np.array([3], dtype=np.int64)) if form[1] == "S" else Opd("A", "i8", (4,), np.array([3, 5, 3, 5], dtype=np.int64))
        out.append(build_case(o, types, form, [a, b]))
    return out


# ------------------------------------------------------------------------------------------------ NumPy reference (layer 2)
def _selu(x, W):
    alpha = LD(NPT[W](float("1.6732632423543772848170429916717")))
    scale = LD(NPT[W](float("1.0507009873554804934193349852946")))
    return scale * (np.maximum(x, 0) + np.minimum(alpha * (np.exp(x) - 1), 0))


def np_reference(o, types, vals, params):
    """vals: operand value arrays (their own dtypes, not yet broadcast for outer). Returns (ref array, class) or (None, None)."""
    if o["ref"] is None:
        return None, None
    w = o["w"]
    xs = list(vals)
    W = None
    if w == "common":
        W = c_common(*types)
        xs = [x.astype(NPT[W]) for x in xs]
    elif w == "float":
        W = c_common(*types)
        if W[0] != "f":
            W = "f8"
        xs = [x.astype(NPT[W]) for x in xs]
    elif w == "float64":
        W = "f8"
        xs = [x.astype(np.float64) for x in xs]
    elif w == "promote":
        W = c_promote(types[0])
        xs = [x.astype(NPT[W]) for x in xs]
    elif w == "left":
        # shifts: the result has the promoted type of the LEFT operand; the (small, non-negative) count is converted to it so that
        # NumPy does not look for a common type of e.g. int64 and uint64
        W = c_promote(types[0])
        xs = [xs[0].astype(NPT[W]), xs[1].astype(NPT[W])]
    elif w == "where":
        W = c_common(*types)
        xs = [xs[0], xs[1].astype(NPT[W]), xs[2].astype(NPT[W])]
    if o["outer"]:
        a, b = xs
        xs = [a.reshape(a.shape + (1,) * b.ndim), b.reshape((1,) * a.ndim + b.shape)]
    cls = o["cls"]
    ps = []
    if params:
        ps = [np.float32(p) for p in params]
    with np.errstate(all="ignore"):
        if cls == "exact":
            if ps:
                ps = [NPT[W](p) for p in ps]
            r = o["ref"](*xs, *ps)
        else:
            xl = [x.astype(LD) for x in xs]
            if o["ref"] == "selu":
                r = _selu(xl[0], W)
            else:
                r = o["ref"](*xl, *[LD(p) for p in ps])
    return np.asarray(r), cls


CPP_BOOL_TYPE = ("equal", "not_equal", "less", "less_equal", "greater", "greater_equal", "logical_and", "logical_or", "logical_not",   # (logical_xor is bool ^ bool = int in C++: not listed)
                 "isfinite", "isinf", "isnan", "signbit")
CPP_OPERATOR_TYPE = ("add", "subtract", "multiply", "bitwise_and", "bitwise_or", "bitwise_xor", "left_shift", "right_shift")


def case_objects(m):
    o, types, mask = BY_OPNAME[m["op"]]
    opds = [opd_from_meta(d) for d in m["opds"]]
    return o, types, opds


def expected(m):
    if m.get("kinds"):
        f = np.array(m["fdata"], dtype=np.int64).reshape(m["fshape"])
        o = np.array(m["odata"], dtype=np.int64).reshape(m["oshape"])
        return KIND_FN[m["fn"]](f, o) if m["order"] == 0 else KIND_FN[m["fn"]](o, f)
    """NumPy reference result (numpy array) of a case, or None if the function has no NumPy counterpart with identical rounding."""
    o, types, opds = case_objects(m)
    ref, cls = np_reference(o, types, [x.values() for x in opds], m.get("params"))
    if ref is None or cls != "exact":
        return None
    if not o["outer"]:
        ref = np.broadcast_to(ref, np.broadcast_shapes(*[x.labels().shape for x in opds]))
    return ref


def parse_x(x):
    """X <Rtag> <access tag> <n> <values>"""
    t = Tok(x)
    t.expect("X")
    rtag = t.s()
    atag = t.s()
    n = t.i()
    vals = [t.num(rtag) for _ in range(n)]
    return rtag, atag, vals


def _bits_equal(a, b, tag):
    """same value (floats: same bits up to the sign of zero and the NaN payload - IEEE leaves fmax/fmin(+0,-0) open and
    the compiler is free to expand the call differently at two call sites)"""
    if tag[0] == "f":
        if a != a or b != b:
            return a != a and b != b
        return a == b
    return a == b


def _ulp_bad(got, ref, rtag, ulps=4):
    """indices where |got-ref| > ulps*spacing(ref in result type)"""
    dt = NPT[rtag]
    g = np.asarray(got, dtype=LD)
    r = np.asarray(ref, dtype=LD)
    with np.errstate(all="ignore"):
        rr = r.astype(dt)
        sp = np.spacing(np.abs(rr)).astype(LD)
        sp = np.where(np.isfinite(sp), sp, LD(np.finfo(dt).max) * LD(np.finfo(dt).eps))
        bothnan = np.isnan(g) & np.isnan(r)
        bothinf = np.isinf(g) & np.isinf(rr) & (np.sign(g) == np.sign(rr))
        ok = bothnan | bothinf | (np.abs(g - r) <= ulps * sp)
    return np.argwhere(~ok.reshape(-1)).reshape(-1)


def _tol_bad(got, ref, rtag, xs):
    dt = NPT[rtag]
    eps = LD(np.finfo(dt).eps)
    g = np.asarray(got, dtype=LD).reshape(-1)
    r = np.asarray(ref, dtype=LD).reshape(-1)
    scale = np.maximum(1, np.abs(r))
    for x in xs:
        scale = np.maximum(scale, np.abs(np.asarray(x, dtype=LD).reshape(-1)))
    with np.errstate(all="ignore"):
        ok = (np.isnan(g) & np.isnan(r)) | (np.abs(g - r) <= 64 * eps * scale)
    return np.argwhere(~ok).reshape(-1)


def oracle(ctx, cr):
    if cr.m.get("kinds"):
        return kinds_oracle(ctx, cr)
    m = cr.m
    op = m["op"]
    form = m.get("form", "-")
    bc = bclass([tuple(s) for s in m["shapes"]]) if "shapes" in m else "-"
    base = "%s:%s:%s" % (op, form, bc)
    det = dict(case=dict(op=op, form=form, shapes=m.get("shapes"), params=m.get("params"), opds=m.get("opds")), line=cr.line[:2000])
    if cr.crash is not None:
        ctx.violation("%s:crash:%s" % (base, cr.crash.kind()), "%s %s %s died: %s" % (op, form, m.get("shapes"), cr.crash.kind()), dict(det, stderr=cr.crash.stderr[-3000:]))
        return
    if cr.timeout:
        ctx.inconc("timeout in %s %s" % (op, m.get("shapes")))
        return
    if cr.rec is None:
        return
    if "error" in cr.rec:
        ctx.violation("%s:malformed_record" % op, cr.rec["error"][:300], det)
        return
    ctx.ev()
    o, types, opds = case_objects(m)
    got = cr.rec["V"]
    if o["outer"]:
        eshape = tuple(opds[0].labels().shape) + tuple(opds[1].labels().shape)
    else:
        eshape = tuple(np.broadcast_shapes(*[x.labels().shape for x in opds]))
    if got is None:
        ctx.violation("%s:nothing" % base, "%s %s on shapes %s returned Nothing (NumPy shape %s)" % (op, form, m["shapes"], list(eshape)), det)
        return
    try:
        rtag, atag, svals = parse_x(cr.rec["X"])
    except (ValueError, IndexError) as e:
        ctx.violation("%s:malformed_record" % op, "unparsable X section: %s" % e, det)
        return
    # ---- element type
    # independent rule for the ufuncs that are C++ built-in operators (usual arithmetic conversions; shifts: promoted left operand):
    # the harness' scalar functor is the library's own, so a functor that yields the wrong type would otherwise agree with itself
    if o["name"] in CPP_OPERATOR_TYPE and not o["outer"]:
        want = c_promote(types[0]) if o["w"] == "left" else c_common(*types)
        if rtag != want:
            ctx.violation("%s:%s:scalar_result_type" % (op, form), "%s: the scalar operation on (%s) yields %s, C++ %s gives %s" % (
                op, ",".join(types), rtag, "shift (promoted left operand)" if o["w"] == "left" else "usual arithmetic conversions", want), det)
    if o["name"] in CPP_BOOL_TYPE and not o["outer"] and rtag != "b1":
        ctx.violation("%s:%s:scalar_result_type" % (op, form), "%s: the scalar operation on (%s) yields %s, a comparison / logical operation yields bool" % (op, ",".join(types), rtag), det)
    if got["tag"] != rtag:
        ctx.violation("%s:%s:type" % (op, form), "%s: element type of the view is %s, the scalar operation yields %s" % (op, got["tag"], rtag), det)
    if atag != rtag:
        ctx.violation("%s:%s:access_type" % (op, form), "%s: view(i...) returns %s, the scalar operation yields %s" % (op, atag, rtag), det)
    # ---- shape
    all_scalar = all(x.kind == "S" for x in opds)
    if all_scalar:
        if not got.get("scalar"):
            ctx.violation("%s:shape" % base, "%s of scalars is not a scalar: shape %s" % (op, got.get("shape")), det)
            return
    else:
        if got.get("scalar") or tuple(got["shape"]) != eshape:
            ctx.violation("%s:shape" % base, "%s %s shapes %s: result shape %s expected %s" % (op, form, m["shapes"], "scalar" if got.get("scalar") else got["shape"], list(eshape)), det)
            return
    if got["data"] is None:
        ctx.inconc("result too large to emit in %s" % op)
        return
    # ---- layer 1: element i == scalar functor on the designated operand elements (bit-exact)
    n = int(np.prod(eshape)) if len(eshape) else 1
    if len(svals) != n or len(got["data"]) != n:
        ctx.violation("%s:malformed_record" % op, "element count mismatch: view %d scalar results %d expected %d" % (len(got["data"]), len(svals), n), det)
        return
    cmp_tag = rtag if got["tag"] == rtag else ("f8" if "f" in (rtag[0], got["tag"][0]) else "i8")
    bad = [i for i in range(n) if not _bits_equal(got["data"][i], svals[i], cmp_tag)]
    if bad:
        i = bad[0]
        idx = list(np.unravel_index(i, eshape)) if len(eshape) else []
        ctx.violation("%s:element" % base, "%s %s shapes %s: element %s is %r, scalar operation on the broadcast operands gives %r (%d of %d differ)" % (
            op, form, m["shapes"], idx, got["data"][i], svals[i], len(bad), n), det)
    # ---- layer 2: NumPy cross-check of the scalar functor's results (and thereby of the view)
    ref, cls = np_reference(o, types, [x.values() for x in opds], m.get("params"))
    if ref is not None:
        if not o["outer"]:
            ref = np.broadcast_to(ref, eshape)
        ref = ref.reshape(-1)
        if ref.size != n:
            ctx.violation("%s:malformed_record" % op, "reference size %d != %d" % (ref.size, n), det)
            return
        vals = got["data"]
        if cls == "exact":
            if rtag[0] == "f":
                g = np.array(vals, dtype=np.float64)
                r = ref.astype(NPT[rtag]).astype(np.float64)
                ok = (g == r) | (np.isnan(g) & np.isnan(r))
            elif rtag == "b1":
                ok = np.array(vals, dtype=np.int64) == ref.astype(np.bool_).astype(np.int64)
            else:
                with np.errstate(all="ignore"):
                    r = ref.astype(NPT[rtag])
                ok = np.array([int(v) for v in vals], dtype=object) == np.array([int(v) for v in r], dtype=object)
            nb = np.argwhere(~np.asarray(ok, dtype=bool)).reshape(-1)
        elif cls == "ulp":
            nb = _ulp_bad(vals, ref, rtag) if rtag[0] == "f" else np.array([0])
        else:
            xs = [np.broadcast_to(x.values(), eshape) for x in opds] if not o["outer"] else []
            nb = _tol_bad(vals, ref, rtag, xs) if rtag[0] == "f" else np.array([0])
        if len(nb) and not bad:
            i = int(nb[0])
            ctx.violation("%s:%s:numpy" % (op, form), "%s %s shapes %s: element %d is %r, NumPy reference %r (%s, %d of %d differ)" % (
                op, form, m["shapes"], i, vals[i], ref[i], cls, len(nb), n), det)
        ctx.add("numpy_crosschecked_cases")
    if n > 1:
        ctx.seen((op, form, tuple(tuple(s) for s in m["shapes"])))
    if n > 3 and len(ctx.samples) < 8 and ctx.rng.random() < 0.004:
        ctx.sample(dict(op=op, form=form, shapes=m["shapes"], result_shape=got.get("shape"), result_type=got["tag"], first_elements=got["data"][:6]))


# ---------------------------------------------------------------------------------------------------------------
# operand kinds (harness/c07_kinds.cpp): fixed-shape array x hybrid / dynamic array of lower or equal rank, both orders
KIND_FIXED = {0: (2, 3), 1: (3, 2), 2: (2, 2, 3)}
KIND_FN = {0: np.add, 1: np.subtract, 2: np.multiply}


def gen_kind_cases(rng, tier):
    out = []
    for fcode, fs in KIND_FIXED.items():
        # every shape (dim 1..len(fs), extents 1 or the fixed extent) that broadcasts with the fixed shape to the fixed shape
        others = set()
        for d in range(1, len(fs) + 1):
            tail = fs[len(fs) - d:]
            for mask in itertools.product((0, 1), repeat=d):
                others.add(tuple(e if m_ else 1 for e, m_ in zip(tail, mask)))
        for osh in sorted(others):
            for okind in (0, 1):
                for order in (0, 1):
                    for fn in ((0, 1, 2) if tier != "quick" else (rng.randrange(3), 1)):
                        nf, no = int(np.prod(fs)), int(np.prod(osh))
                        fd = [100 + k for k in range(nf)]
                        od = [1000 + 7 * k for k in range(no)]
                        args = "%d %d %d %s %d %s %s" % (fn, order, fcode, fmt_vec(fd), okind, fmt_vec(list(osh)), fmt_vec(od))
                        out.append(dict(op="uf_kinds", args=args, form="K", kinds=True, fn=fn, order=order, fshape=list(fs), oshape=list(osh), okind=okind, fdata=fd, odata=od,
                                        shapes=[list(fs), list(osh)]))
    return out


def kinds_oracle(ctx, cr):
    m = cr.m
    cls = "%s:%s:%s" % ("fixed_first" if m["order"] == 0 else "fixed_second", "hybrid" if m["okind"] == 0 else "dynamic",
                        "lower_rank" if len(m["oshape"]) < len(m["fshape"]) else "same_rank")
    det = dict(case={k: v for k, v in m.items() if k not in ("args", "fdata", "odata")}, line=cr.line[:1500])
    if cr.crash is not None:
        ctx.violation("uf_kinds:%s:crash:%s" % (cls, cr.crash.kind()), "binary ufunc over (fixed %s, %s %s) died: %s" % (m["fshape"], "hybrid" if m["okind"] == 0 else "dynamic", m["oshape"], cr.crash.kind()),
                      dict(det, stderr=cr.crash.stderr[-2500:]))
        return
    if cr.rec is None or cr.timeout:
        return
    if "error" in cr.rec:
        ctx.violation("uf_kinds:%s:malformed_record" % cls, cr.rec["error"][:300], det)
        return
    ctx.ev()
    f = np.array(m["fdata"], dtype=np.int64).reshape(m["fshape"])
    o = np.array(m["odata"], dtype=np.int64).reshape(m["oshape"])
    exp = KIND_FN[m["fn"]](f, o) if m["order"] == 0 else KIND_FN[m["fn"]](o, f)
    got = cr.rec["V"]
    if got is None:
        ctx.violation("uf_kinds:%s:nothing" % cls, "binary ufunc over (fixed %s, other %s) returned Nothing" % (m["fshape"], m["oshape"]), det)
        return
    why = V.compare_np(got, exp)
    if why:
        ctx.violation("uf_kinds:%s:%s" % (cls, "shape" if why.startswith("shape") else "element"), "%s(%s) with a fixed-shape operand %s and a %s operand %s: %s" % (
            KIND_FN[m["fn"]].__name__, "fixed, other" if m["order"] == 0 else "other, fixed", m["fshape"], "hybrid" if m["okind"] == 0 else "dynamic", m["oshape"], why), det)
    ctx.seen(("uf_kinds", m["fn"], m["order"], m["okind"], tuple(m["fshape"]), tuple(m["oshape"])))


def run(ctx):
    cases = gen_cases(ctx.rng, ctx.tier)
    res = V.run_module_cases(HARNESS, cases, "asan")
    acc = HookAcc()
    norec = 0
    for cr in res:
        for (site, f0, f1) in V.hook_problems(cr, acc):
            ctx.violation("%s:%s:hook:%s" % (cr.m["op"], cr.m.get("form", "-"), site), "hook %s: index %d outside bound %d in %s" % (site, f0, f1, cr.line[:300]), dict(line=cr.line[:2000]))
        oracle(ctx, cr)
        if cr.rec is None and cr.crash is None and not cr.timeout:
            norec += 1
    if norec:
        ctx.inconc("%d cases produced no record" % norec)
    names = sorted({c["op"] for c in cases})
    fns = sorted({o["name"].replace("_p", "") if o["prefix"] == "act" else o["name"] for o in OPS})
    ctx.rule = ("%d harness ops (function x element types) over %d distinct library functions; operand forms A(rray) S(calar) T(ransposed view) L(sliced view); "
                "quick: shape pairs from the broadcastable scope dim 0..3 / extents 1..3 (exhaustive for add/subtract int32, stratified sample of 10 per op otherwise), "
                "thorough: dim 0..4 / extents 1..4, 300 pairs per op + 3000 for add/subtract; distinct = (op, form, operand shapes) with more than one result element"
                % (len(names), len(fns)))
    ctx.set("hook_events", acc.summary())
    ctx.set("harness_ops", len(names))
    ctx.set("library_functions", fns)
    ctx.set("not_compilable_on_unchanged_tree", NOT_COMPILABLE)
    ctx.set("cases_generated", len(cases))
    ctx.set("crashes_contained", sum(1 for cr in res if cr.crash is not None))
    forms = {}
    for c in cases:
        forms[c["form"]] = forms.get(c["form"], 0) + 1
    ctx.set("cases_per_operand_form", forms)
    if acc.events.get(2, 0) == 0:
        ctx.inconc("view index hook never fired")
