"""C14: functors, currying, composition and extraction are equivalent to direct views (generated programs)."""
import hashlib
import os
import random

from .. import build as B
from .. import run as R
from .. import c14_gen as G
from .. import c14_eval as E
from ..core import Inconclusive
from ..util import split_hooks, HookAcc, SITE_NAMES

SAN = "ASan+UBSan+_GLIBCXX_ASSERTIONS build of the generated translation units from the working tree"
CLAIM = dict(
    technique="runtime monitoring of GENERATED programs: a Python generator emits C++ translation units from a catalogue of "
              "functors and composition shapes (compile-probed allow-list vf/c14_supported.json); each program records functor results "
              "for every curry split / parenthesisation next to the direct view call, extracted operands by address, and the dumped "
              "compute graph; Python compares elementwise and checks the graph against the expression tree (networkx isomorphism)",
    text="For each generated expression (quick ~50 in 13 TUs, thorough ~450 in ~113 TUs: deterministic core + VERIF_SEED-chosen chunks of the "
         "525-expression allow-list) and 3/5 seeded run-time argument sets (shapes, data with unique labels, axes/shapes/scalars): "
         "(A) one functor, every attribute/operand split incl. attributes after curried operands vs view::f(...), all 12 functor families; "
         "(B) chains of 2..4 functors with n-ary functors in any position and swap/dup/dig/bury, flat / every parenthesisation / curried / "
         "nested functor calls vs the nested direct view calls given by an independent stack model; (C) view trees of depth 1..4: "
         "get_function_operands addresses vs the leaves in DFS order, apply(get_function_composition, operands) vs the view, and "
         "get_compute_graph node count / unique ids / leaf addresses / ordered operands / output shapes / edge set (networkx isomorphism) vs "
         "the expression tree; independently of the tree every dumped graph must be internally consistent (each operation's recorded operand ids == its in-edges, no edge into an operand node, acyclic), which also decides expressions whose graph is known not to be the expression tree (sibling sub-views sharing an upstream node are in the deterministic core). A case whose direct view call alone dies or is Nothing is not counted. Held-on-observed, not a proof.",
    note="Trusted: the generator's stack model and expression tree, networkx, " + SAN + ". Expressions that do not compile on the "
         "unchanged tree are outside the allow-list and are not generated (listed under 'rejected' in vf/c14_supported.json); a TU that "
         "stops compiling is inconclusive. The reference for values is the library's own direct view call (equivalence property), "
         "values themselves are the business of C03-C08.",
    ref="DESIGN.md 4/C14")

TU_SIZE = 4


def _sha(s):
    return hashlib.sha1(s.encode()).hexdigest()


def pool_chunks():
    """deterministic partition of the allow-list into translation units (independent of the seed, so binaries are shared by all
    seeds and both tiers): {"core": [...], "A": [...], "B": [...], "C": [...]}, each a list of chunks of <= TU_SIZE entries"""
    sup = G.load_supported()
    core_keys = [G.spec_base_key(s) for s in G.core_specs()]
    by_base = {}
    for e in sup["supported"]:
        by_base.setdefault(G.spec_base_key(e["spec"]), e)
    core = [by_base[k] for k in core_keys if k in by_base]
    used = {G.spec_key(e["spec"]) for e in core}
    rest = {"A": [], "B": [], "C": []}
    finfo = sup.get("functors", {})
    for e in sup["supported"]:
        sp = e["spec"]
        if G.spec_key(sp) in used:
            continue
        if sp["t"] == "A" and sp["f"] in finfo and not finfo[sp["f"]].get("shape_ok") and all(k[0] == "d" for k in sp["leaves"]):
            continue    # the direct view call itself dies with run-time shapes (conv*): nothing to compare
        rest[sp["t"]].append(e)
    # kind A: every chunk mixes functor families (round-robin over the families)
    fams = {}
    for e in sorted(rest["A"], key=lambda e: G.spec_key(e["spec"])):
        fams.setdefault(G.CAT[e["spec"]["f"]].family, []).append(e)
    a_sorted = []
    while any(fams.values()):
        for fam in sorted(fams):
            if fams[fam]:
                a_sorted.append(fams[fam].pop(0))
    rest["A"] = a_sorted
    for k in ("B", "C"):
        # interleave structure classes so that a chunk is not all of one shape
        rest[k] = sorted(rest[k], key=lambda e: _sha(G.spec_key(e["spec"])))

    def chunks(lst):
        return [lst[i:i + TU_SIZE] for i in range(0, len(lst), TU_SIZE)]
    return {"core": chunks(core), "A": chunks(rest["A"]), "B": chunks(rest["B"]), "C": chunks(rest["C"])}


def select(tier, seed):
    """translation units of a run: the deterministic core + a seeded choice of chunks.  -> list of chunks (lists of entries)"""
    pc = pool_chunks()
    rng = random.Random(seed * 7919 + 14)
    out = list(pc["core"])
    if os.environ.get("C14_ALL"):
        want = {k: len(pc[k]) for k in "ABC"}        # developer switch: the whole allow-list (key-closure soak)
    elif tier == "quick":
        want = {"A": 1, "B": 1, "C": 1}
    else:
        want = {"A": len(pc["A"]), "B": (3 * len(pc["B"]) + 3) // 4, "C": (3 * len(pc["C"]) + 3) // 4}
    for k in ("A", "B", "C"):
        idx = list(range(len(pc[k])))
        rng.shuffle(idx)
        for i in sorted(idx[:want[k]]):
            out.append(pc[k][i])
    return out


def make_tus(chunks):
    """-> list of (Target, [(opname, spec, hints)])"""
    tus = []
    for grp in chunks:
        named = [("e%d" % k, e["spec"]) for k, e in enumerate(grp)]
        text = G.gen_tu(named)
        nm = "c14_" + _sha(text)[:12]
        t = B.Target(nm + ".cpp", "asan", name=nm, text=text)
        tus.append((t, [("e%d" % k, e["spec"], e.get("hints")) for k, e in enumerate(grp)]))
    return tus


def TARGETS_QUICK_FN():
    seed = int(os.environ.get("VERIF_SEED", "0") or 0)
    return [t for t, _ in make_tus(select("quick", seed))]


TARGETS_QUICK = [TARGETS_QUICK_FN]


def describe(spec):
    if spec["t"] == "A":
        return "curry %s%s over %s" % (spec["f"], list(G.CAT[spec["f"]].variants[spec["v"]]), spec["leaves"])
    if spec["t"] == "B":
        return "compose %s over %s" % (" * ".join(G.functor_expr({"f": it["f"], "v": it["v"], "k": p}) for p, it in enumerate(spec["chain"])), spec["leaves"])
    return "extract %s over %s" % (G.view_expr(G.number_instances(spec["tree"])), spec["leaves"])


def run(ctx):
    quick = ctx.tier == "quick"
    chunks = select(ctx.tier, ctx.seed)
    if not chunks:
        raise Inconclusive("empty allow-list vf/c14_supported.json")
    tus = make_tus(chunks)
    chosen = [(e["spec"], e.get("hints")) for grp in chunks for e in grp]
    finfo = G.functor_info()
    res = B.build([t for t, _ in tus])
    ncases = 3 if quick else 5
    rng = ctx.rng
    compile_failed = []
    hacc = HookAcc()
    stats = dict(A=0, B=0, C=0)
    n_variants = 0
    n_graphs = 0
    n_applies = 0
    n_operands = 0
    skipped = dict(no_args=0, ref_nothing=0, ref_dies=0, shape_model=0)
    ref_died_in = set()
    shape_model_off = set()
    families_seen = set()
    classes_seen = set()
    crashes_total = 0
    for (t, members), built in zip(tus, res):
        if built.error:
            compile_failed.append((members, built.error))
            continue
        cases = []
        meta = {}
        cid = 0
        for opname, spec, hints in members:
            for ci in range(ncases):
                case = G.sample_case(spec, rng, hints, force=spec.get("force_shapes") if ci == 0 else None)
                if case is None:
                    skipped["no_args"] += 1
                    continue
                toks = G.case_tokens(spec, case)
                trees, _ = G.spec_tree(spec)
                ref_id = None
                if len(trees) == 1 and not G.is_leaf(trees[0]):
                    cid += 1
                    ref_id = str(cid)
                    cases.append((str(cid), "%d %sr %s" % (cid, opname, toks)))
                    meta[str(cid)] = dict(spec=spec, case=case, part="ref", op=opname + "r", ref=None)
                cid += 1
                cases.append((str(cid), "%d %s %s" % (cid, opname, toks)))
                meta[str(cid)] = dict(spec=spec, case=case, part="main", op=opname, ref=ref_id)
                if spec["t"] == "C":
                    cid += 1
                    cases.append((str(cid), "%d %sx %s" % (cid, opname, toks)))
                    meta[str(cid)] = dict(spec=spec, case=case, part="apply", op=opname + "x", ref=ref_id)
        results, crashes, touts = R.run_cases(built.binary, cases, nbatch=min(4, max(1, len(cases) // 6)), timeout=900)
        for tmo in touts:
            ctx.inconc("timeout in %s" % (describe(meta[tmo]["spec"]) if tmo in meta else tmo))
        crashed = {}
        for c in crashes:
            crashes_total += 1
            if c.case_id in meta:
                crashed[c.case_id] = c
            else:
                ctx.violation("runner:crash_outside_case:%s" % c.kind(), "generated program died outside a case: %s" % c.kind(), dict(stderr=c.stderr[-3000:]))
        # a case whose direct view call alone dies / throws / is Nothing is outside C14 (argument validity: C15)
        ref_bad = set()
        for cid_, line in cases:
            m = meta[cid_]
            if m["part"] != "ref":
                continue
            if cid_ in crashed or cid_ not in results or "EXC" in results[cid_]:
                ref_bad.add(cid_)
                skipped["ref_dies"] += 1
                ref_died_in.add(describe(m["spec"]))
                continue
            rt, _ = split_hooks(results[cid_])
            try:
                r = E.parse_ab(rt)[0]
                if r is None or r[0] != "arr" or r[2] is None:
                    ref_bad.add(cid_)
                    skipped["ref_nothing"] += 1
            except (ValueError, IndexError):
                ref_bad.add(cid_)
                skipped["ref_dies"] += 1
        for cid_, line in cases:
            m = meta[cid_]
            if m["part"] == "ref" or m.get("ref") in ref_bad:
                continue
            spec, case = m["spec"], m["case"]
            det = dict(expression=describe(spec), spec=spec, leaf_shapes=case["leaf_shapes"], attrs=case["attr_vals"], line=line[:2000])
            if cid_ in crashed:
                ctx.ev()
                check_crash(ctx, m, crashed[cid_].kind(), crashed[cid_].stderr, det, finfo)
                continue
            if cid_ not in results:
                continue
            toks, hooks = split_hooks(results[cid_])
            if "EXC" in toks:
                # a C++ exception escaped the library call (caught by the runner)
                ctx.ev()
                k = toks.index("EXC")
                what = toks[k + 1] if k + 1 < len(toks) else "?"
                check_crash(ctx, m, "exception:" + what.split(":")[0][:40], " ".join(toks[k:k + 2]), det, finfo)
                continue
            for (s, v, f0, f1) in hacc.add(hooks):
                site = SITE_NAMES.get(s, s)
                ec_ = E.extract_class(G.number_instances(spec["tree"]), finfo) if spec["t"] == "C" else None
                if m["part"] == "apply" and ec_ in ("view_operand_at_pos_ge1", "composite_view"):
                    # the linear composition hands operands to the wrong functors: an out-of-range index inside the re-applied views is one of its symptoms
                    ctx.violation("extract:%s:apply_differs" % ec_, "apply(get_function_composition(v), get_function_operands(v)) indexes outside an operand "
                                  "(hook %s: index %d bound %d) for v = %s" % (site, f0, f1, describe(spec)), det)
                else:
                    ctx.violation("%s:hook:%s" % (spec["t"], site), "bounds hook %s fired (index %d bound %d) in %s" % (site, f0, f1, describe(spec)), det)
            ctx.ev()
            try:
                if "ERR" in toks[:1] or (len(toks) >= 2 and toks[-2] == "ERR"):
                    raise ValueError("harness argument error: %s" % " ".join(toks[-3:]))
                if spec["t"] in ("A", "B"):
                    nv = check_ab(ctx, spec, case, toks, det, skipped, families_seen, classes_seen)
                    n_variants += nv
                elif m["part"] == "main":
                    a, b = check_c_main(ctx, spec, case, toks, det, skipped, classes_seen, finfo)
                    n_operands += a
                    n_graphs += b
                else:
                    n_applies += check_c_apply(ctx, spec, case, toks, det, skipped, classes_seen, finfo)
                stats[spec["t"]] += 1
            except (ValueError, IndexError, KeyError) as e:
                ctx.violation("%s:malformed_record" % spec["t"], "unparsable record for %s: %s" % (describe(spec), e), det)
        if len(ctx.samples) < 8 and members:
            opname, spec0, _ = members[0]
            first = [m for m in meta.values() if m["op"] == opname]
            if first:
                c0 = first[0]["case"]
                ctx.sample(dict(expression=describe(spec0), leaf_shapes=c0["leaf_shapes"], attributes={str(k): v for k, v in c0["attr_vals"].items()},
                                model_output_shape=c0["out_shapes"], cases=ncases,
                                call_forms=[e for _, _, e in (G.curry_variants(spec0) if spec0["t"] == "A" else G.compose_variants(spec0) if spec0["t"] == "B" else [])][:6]))
    for members, err in compile_failed:
        ctx.inconc("generated TU with %s no longer compiles: %s" % ([describe(s) for _, s, _ in members][:4], err[-400:].replace("\n", " | ")))
    nspec = {k: sum(1 for s, _ in chosen if s["t"] == k) for k in "ABC"}
    ctx.rule = ("generated programs: %d expressions (%d curry, %d composition, %d extraction) = deterministic core + seeded choice from the "
                "compile-probed allow-list, %d seeded run-time argument sets each; distinct = (kind, expression, argument shapes) with a "
                "non-trivial (>1 element, has value) reference" % (len(chosen), nspec["A"], nspec["B"], nspec["C"], ncases))
    ctx.exhaustive = False
    ctx.set("expressions", nspec)
    ctx.set("translation_units", len(tus))
    ctx.set("functor_call_variants_compared", n_variants)
    ctx.set("extracted_operand_packs_checked", n_operands)
    ctx.set("compute_graphs_checked", n_graphs)
    ctx.set("apply_of_extracted_composition_checked", n_applies)
    ctx.set("functor_families_exercised", sorted(families_seen))
    ctx.set("structure_classes_exercised", sorted(classes_seen))
    ctx.set("cases_skipped", skipped)
    ctx.set("direct_view_call_died_in", sorted(ref_died_in)[:20])
    ctx.set("crashes_contained", crashes_total)
    ctx.set("hook_events", hacc.summary())
    ctx.set("allow_list", dict(supported=len(G.load_supported()["supported"]), rejected=len(G.load_supported().get("rejected", []))))
    if n_variants == 0 or n_graphs == 0 or n_applies == 0:
        ctx.inconc("a section observed nothing (variants=%d graphs=%d applies=%d)" % (n_variants, n_graphs, n_applies))


# ---------------------------------------------------------------------------------------------------------
def check_crash(ctx, m, kind, stderr, det, finfo):
    spec = m["spec"]
    det = dict(det, stderr=stderr[-2500:], crash=kind)
    if spec["t"] == "A":
        ctx.violation("curry:%s:crash:%s" % (G.CAT[spec["f"]].family, kind), "%s died: %s" % (describe(spec), kind), det)
    elif spec["t"] == "B":
        ctx.violation("compose:%s:crash:%s" % (E.compose_class(spec), kind), "%s died: %s" % (describe(spec), kind), det)
    else:
        tree = G.number_instances(spec["tree"])
        cl = G.classify_tree(tree)
        ec = E.extract_class(tree, finfo)
        if m["part"] == "apply":
            if cl["bin_over_view"] and kind == "asan:stack-use-after-scope":
                ctx.violation("extract:binary_ufunc_over_view:stack_use_after_scope",
                              "get_function_composition of %s reads a destroyed temporary (ASan stack-use-after-scope)" % describe(spec), det)
            elif ec in ("view_operand_at_pos_ge1", "composite_view"):
                ctx.violation("extract:%s:apply_differs" % ec,
                              "apply(get_function_composition(v), get_function_operands(v)) died (%s) for v = %s" % (kind, describe(spec)), det)
            else:
                ctx.violation("extract:left_deep:crash:%s" % kind, "extraction of %s died: %s" % (describe(spec), kind), det)
        else:
            gc = E.graph_class(tree, spec["leaves"])
            ctx.violation("graph:%s:crash:%s" % (gc, kind), "get_function_operands/get_compute_graph of %s died: %s" % (describe(spec), kind), det)


def check_ab(ctx, spec, case, toks, det, skipped, families_seen, classes_seen):
    ref, variants = E.parse_ab(toks)
    trees, _ = G.spec_tree(spec)
    if spec["t"] == "A":
        fam = G.CAT[spec["f"]].family
        families_seen.add(fam)
        labels = {lab: cls for lab, cls, _ in G.curry_variants(spec)}
        base = "curry:%s" % fam
    else:
        cc = E.compose_class(spec)
        classes_seen.add("compose:" + cc)
        for it in spec["chain"]:
            families_seen.add(G.CAT[it["f"]].family)
        labels = {lab: cls for lab, cls, _ in G.compose_variants(spec)}
        base = "compose:%s" % cc
    exp_pack = E.expected_pack(trees, case, spec)
    n = 0
    if ref is not None:
        if ref[0] != "arr" or ref[2] is None:
            skipped["ref_nothing"] += 1
            return 0
        if ref[2]["shape"] is not None and case["out_shapes"] and ref[2]["shape"] != case["out_shapes"][0]:
            skipped["shape_model"] += 1
    for lab, cls in labels.items():
        if lab not in variants:
            raise ValueError("variant %s missing" % lab)
        got = variants[lab]
        n += 1
        if ref is not None:
            if got[0] != "arr":
                ctx.violation("%s:%s:returned_operand_pack" % (base, cls), "%s variant %s returns an operand pack, the direct call an array" % (describe(spec), lab), det)
                continue
            d = E.array_diff(ref[2], got[2])
            if d:
                ctx.violation("%s:%s:%s" % (base, cls, d), "%s variant %s = %s but direct view call = %s" % (
                    describe(spec), lab, _short(got[2]), _short(ref[2])), dict(det, variant=lab))
        else:
            if got[0] != "pack":
                ctx.violation("%s:%s:returned_array" % (base, cls), "%s variant %s returns an array, expected the operand pack %s" % (describe(spec), lab, exp_pack), det)
                continue
            d = E.pack_diff(exp_pack, got[1])
            if d:
                ctx.violation("%s:%s:%s" % (base, cls, d), "%s variant %s gives operand pack %s expected %s" % (describe(spec), lab, got[1], exp_pack), dict(det, variant=lab))
    if ref is None or E.informative(ref[2]):
        ctx.seen((spec["t"], G.spec_key(spec), tuple(map(tuple, case["leaf_shapes"]))))
    return n


def _short(a):
    if a is None:
        return "Nothing"
    d = a["data"]
    return "%s%s%s" % (a["tag"], a["shape"], (d[:6] + ["..."] if d and len(d) > 6 else d))


def _shapes_ok(spec, case, sv, tree):
    """the generator's shape model agrees with what the library reports for every sub-view"""
    nodes = G.tree_nodes(tree)
    if len(sv) != len(nodes):
        raise ValueError("SV count")
    attr_vals = {}
    shapes = {}
    try:
        G.eval_tree(tree, case["leaf_shapes"], random.Random(0), dict(case["attr_vals"]), shapes)
    except G.Invalid:
        return False, {}
    out = {}
    ok = True
    for i, n in enumerate(nodes):
        model = shapes[id(n)][1]
        if not sv[i]["has_value"]:
            ok = False
            continue
        out[n["k"]] = sv[i]["shape"]
        if sv[i]["shape"] != model:
            ok = False
    return ok, out


def check_c_main(ctx, spec, case, toks, det, skipped, classes_seen, finfo):
    rec = E.parse_c(toks)
    tree = G.number_instances(spec["tree"])
    ok, sv_shapes = _shapes_ok(spec, case, rec["sv"], tree)
    if rec["novalue"] or not all(s["has_value"] for s in rec["sv"]):
        skipped["ref_nothing"] += 1
        return 0, 0
    if not ok:
        skipped["shape_model"] += 1
    gc = E.graph_class(tree, spec["leaves"])
    ec = E.extract_class(tree, finfo)
    na = nb = 0
    # extracted operands = leaves in DFS order
    exp_ops = [E.expected_leaf(i, case, spec) for i in G.tree_leaves(tree)]
    if rec["ops"] is not None and ec == "composite_view":
        # the library's internal tree is not known to the generator: every extracted operand must be one of the leaves, every leaf must occur
        na = 1
        got = rec["ops"]
        # (numbers that are not leaves are internal constants of the composite view, e.g. the divisor of mean)
        bad = [g for g in got if g[0] != "S" and not any(E.operand_matches(e, g) for e in exp_ops)]
        missing = [e for e in exp_ops if not any(E.operand_matches(e, g) for g in got)]
        if bad or missing:
            ctx.violation("extract:operands:composite_view:operand_identity", "get_function_operands(%s) = %s, leaves are %s" % (describe(spec), got, exp_ops), det)
    elif rec["ops"] is not None:
        na = 1
        d = E.pack_diff(exp_ops, rec["ops"])
        if d:
            ctx.violation("extract:operands:%s:%s" % (ec, d), "get_function_operands(%s) = %s expected the leaves %s" % (describe(spec), rec["ops"], exp_ops), det)
    if rec["graph"] is not None:
        nb = 1
        classes_seen.add("graph:" + gc)
        # (class nary_non_ufunc_over_view: the known id collision between the leaf and the sub-view's leaf already shows as a
        #  self-loop, i.e. as an inconsistency - that class is decided by the expression-tree comparison alone)
        rc = E.graph_consistency(rec["graph"]) if gc != "nary_non_ufunc_over_view" else None
        if rc:
            dump = rec["graph"]
            ctx.violation("graph:%s:consistency:%s" % (gc, rc[0]), "get_compute_graph(%s): %s" % (describe(spec), rc[1]),
                          dict(det, graph_nodes=[(n["id"], E._label_of(n), n.get("operands")) for n in dump["nodes"]], graph_edges=dump["edges"]))
        r = E.graph_diff(tree, case, spec, rec["graph"], sv_shapes if ok else {})
        if r:
            sym, why = r
            dump = rec["graph"]
            detail = dict(det, graph_nodes=[(n["id"], E._label_of(n), n.get("operands")) for n in dump["nodes"]], graph_edges=dump["edges"],
                          subview_ids=[s["id"] for s in rec["sv"]], symptom=sym)
            if gc != "supported":
                ctx.violation("graph:%s:not_the_expression_tree" % gc, "get_compute_graph(%s): %s (%s)" % (describe(spec), sym, why), detail)
            else:
                svids = [s["id"] for s in rec["sv"]]
                leaf_ids = [n["id"] for n in dump["nodes"] if n["kind"] != "F"]
                if len(set(svids)) < len(svids) or set(svids) & set(leaf_ids):
                    ctx.violation("graph:supported:id_hash_collision", "get_compute_graph(%s): two nodes of different type share id (sub-view ids %s, leaf ids %s): %s" % (
                        describe(spec), svids, leaf_ids, sym), detail)
                else:
                    ctx.violation("graph:supported:%s" % sym, "get_compute_graph(%s): %s" % (describe(spec), why), detail)
        ctx.seen(("Cg", G.spec_key(spec), tuple(map(tuple, case["leaf_shapes"]))))
    return na, nb


def check_c_apply(ctx, spec, case, toks, det, skipped, classes_seen, finfo):
    rec = E.parse_cx(toks)
    if rec["novalue"] or rec["view"] is None:
        skipped["ref_nothing"] += 1
        return 0
    tree = G.number_instances(spec["tree"])
    ec = E.extract_class(tree, finfo)
    classes_seen.add("extract:" + ec)
    nleaves = len(G.tree_leaves(tree))
    if ec != "composite_view" and (rec["arity"] != nleaves or rec["nops"] != nleaves):
        ctx.violation("extract:%s:arity" % ec, "get_function_composition(%s) has arity %d with %d extracted operands, the expression has %d operand occurrences" % (
            describe(spec), rec["arity"], rec["nops"], nleaves), det)
    d = E.array_diff(rec["view"], rec["apply"])
    if d:
        what = "apply(get_function_composition(v), get_function_operands(v)) = %s but v = %s for v = %s" % (_short(rec["apply"]), _short(rec["view"]), describe(spec))
        if ec in ("view_operand_at_pos_ge1", "composite_view"):
            ctx.violation("extract:%s:apply_differs" % ec, what + " [%s]" % d, det)
        else:
            ctx.violation("extract:left_deep:%s" % d, what, det)
    if E.informative(rec["view"]):
        ctx.seen(("Cx", G.spec_key(spec), tuple(map(tuple, case["leaf_shapes"]))))
    return 1
