"""C01: multi-index <-> flat offset addressing is an order-preserving bijection."""
import itertools

import numpy as np

from .. import run as R
from ..util import (Tok, split_hooks, harness_targets, build_or_fail, all_shapes, fmt_vec, HookAcc, SITE_NAMES)

SAN = "ASan+UBSan+_GLIBCXX_ASSERTIONS build of the harness from the working tree"
CLAIM = dict(
    technique="runtime monitoring: sanitizer-instrumented execution + big-int reference oracle over recorded index computations; bounds hooks in ndarray access",
    text="Executes compute_strides/compute_offset/compute_indices/ndindex and ndarray element access for every shape of dim 1..4 (thorough: ..5) with small extents, every flat offset, 4 run-time container kinds x 4 index element types, plus sampled shapes with 2^24..2^40 elements, plus compute_offset over int / uint32 index and stride containers whose values fit while the flat offset (nm_size_t) exceeds the element type; each recorded result is decided by an independent Python big-int model (round trip, in-range, suffix-product strides, C-order enumeration, injective buffer addressing in both layouts). Held-on-observed, not a proof.",
    note="Trusted: Python ints / numpy as the model; " + SAN + "; compile-time-constant index containers are covered by C09, not here.",
    ref="DESIGN.md 4/C01")
TARGETS_QUICK = [("c01_index", "asan")]

KINDS = {0: "list", 1: "array", 2: "tuple", 3: "static_vector"}
ETYPES = {0: ("int", 2**31 - 1), 1: ("size_t", 2**64 - 1), 2: ("int64", 2**63 - 1), 3: ("uint32", 2**32 - 1)}


def strides_of(shape):
    s = []
    p = 1
    for e in reversed(shape):
        s.append(p)
        p *= e
    return list(reversed(s))


def unravel(off, shape):
    st = strides_of(shape)
    return [(off // st[i]) % shape[i] for i in range(len(shape))]


def sizeclass(shape):
    p = 1
    for e in shape:
        p *= e
    return "small" if p <= 4096 else "large"


def gen_large(rng, n):
    targets = [2**31 - 1, 2**31, 2**32, 2**40, 2**24, 2**33 + 7]
    out = []
    while len(out) < n:
        dim = rng.randint(1, 6)
        tgt = rng.choice(targets)
        shape = []
        rem = tgt
        for k in range(dim - 1):
            hi = max(1, int(round(rem ** (1.0 / (dim - k)))) * 2)
            e = rng.randint(1, max(1, hi))
            shape.append(e)
            rem = max(1, rem // e)
        shape.append(max(1, rem + rng.choice([-1, 0, 0, 1])))
        rng.shuffle(shape)
        out.append(shape)
    return out


def run(ctx):
    quick = ctx.tier == "quick"
    bins = build_or_fail(harness_targets(["c01_index"], "asan"))
    binary = bins[("c01_index", "asan")]
    rng = ctx.rng
    cases = []   # (id, line)
    meta = {}
    cid = 0

    def add(line, m):
        nonlocal cid
        cid += 1
        cases.append((str(cid), "%d %s" % (cid, line)))
        meta[str(cid)] = m

    maxext, maxdim = (4, 4) if quick else (5, 5)
    small = [s for s in all_shapes(maxdim, maxext, mindim=1)]
    if not quick:
        small = [s for s in small if len(s) <= 4 or max(s) <= 4]
    # --- round trips on every small shape, all offsets, all container kinds / element types
    for shape in small:
        n = int(np.prod(shape))
        offs = list(range(n))
        for kind in KINDS:
            for et in ETYPES:
                idxs = []
                for _ in range(3):
                    idxs.append([rng.randrange(e) for e in shape])
                idxs.append([e - 1 for e in shape])
                line = "roundtrip %d %d %s %s %d %s" % (kind, et, fmt_vec(shape), fmt_vec(offs), len(idxs), " ".join(fmt_vec(i) for i in idxs))
                add(line, dict(op="roundtrip", kind=kind, et=et, shape=shape, offs=offs, idxs=idxs))
    # --- sampled large shapes (index math only)
    nlarge = 300 if quick else 20000
    for shape in gen_large(rng, nlarge):
        p = 1
        for e in shape:
            p *= e
        st = strides_of(shape)
        for kind in KINDS:
            for et, (_, mx) in ETYPES.items():
                if p > mx:
                    continue
                if rng.random() > (0.35 if quick else 0.25):
                    continue
                offs = {0, p - 1}
                for s_ in st:
                    for d in (-1, 0, 1):
                        if 0 <= s_ + d < p:
                            offs.add(s_ + d)
                for _ in range(6):
                    offs.add(rng.randrange(p))
                offs = sorted(offs)
                idxs = [[rng.randrange(e) for e in shape] for _ in range(3)] + [[e - 1 for e in shape]]
                line = "roundtrip %d %d %s %s %d %s" % (kind, et, fmt_vec(shape), fmt_vec(offs), len(idxs), " ".join(fmt_vec(i) for i in idxs))
                add(line, dict(op="roundtrip", kind=kind, et=et, shape=shape, offs=offs, idxs=idxs))
    # --- flat offsets beyond the (narrow) element type of the index / stride containers: every extent, stride and index fits
    #     int / uint32 but the offset (returned as nm_size_t) does not: each term stride*index must be formed in the wide type
    nwide = 40 if quick else 1500
    for et in (0, 3):
        mx = ETYPES[et][1]
        done = 0
        guard = 0
        while done < nwide and guard < nwide * 50:
            guard += 1
            dim = rng.randint(2, 4)
            # a leading stride close to sqrt(max) .. max/2 and a leading extent that pushes the count beyond max
            shape = [rng.randint(2, 9) for _ in range(dim)]
            shape[-1] = rng.randint(30000, 70000)
            shape[-2] = rng.randint(30000, 70000) if dim == 2 else rng.randint(1000, 30000)
            st = strides_of(shape)
            p = st[0] * shape[0]
            if max(st) > mx or max(shape) > mx or p <= mx:
                continue
            kind = rng.choice([0, 1, 3])
            idxs = [[e - 1 for e in shape]] + [[rng.randrange(e) for e in shape] for _ in range(3)]
            idxs.append([e - 1 if k < 2 else 0 for k, e in enumerate(shape)])
            add("offset_wide %d %d %s %d %s" % (kind, et, fmt_vec(st), len(idxs), " ".join(fmt_vec(i) for i in idxs)),
                dict(op="offset_wide", kind=kind, et=et, shape=shape, strides=st, idxs=idxs))
            done += 1
    # --- ndindex enumeration
    for shape in small:
        for kind in (0, 1, 3):
            if kind == 1 and len(shape) > 5:
                continue
            add("ndindex %d %s" % (kind, fmt_vec(shape)), dict(op="ndindex", kind=kind, shape=shape))
    # --- ndarray layouts
    for shape in small:
        if int(np.prod(shape)) > 700:
            continue
        for lay in (0, 1):
            for bk in (0, 1):
                add("layout %d %d %s" % (lay, bk, fmt_vec(shape)), dict(op="layout", lay=lay, bk=bk, shape=shape))

    results, crashes, touts = R.run_cases(binary, cases)
    hacc = HookAcc()
    for c in crashes:
        m = meta.get(c.case_id, {})
        ctx.violation("%s:%s:crash:%s" % (m.get("op", "?"), KINDS.get(m.get("kind"), m.get("lay", "-")), c.kind()),
                      "process died in case %s: %s" % (m, c.kind()), dict(case=m, stderr=c.stderr[-3000:]))
    for t in touts:
        ctx.inconc("timeout in case %s" % (meta.get(t, t),))
    missing = 0
    for cid_, line in cases:
        m = meta[cid_]
        if cid_ not in results:
            missing += 1
            continue
        toks, hooks = split_hooks(results[cid_])
        ctx.ev()
        for (s, v, f0, f1) in hacc.add(hooks):
            ctx.violation("%s:hook:%s" % (m["op"], SITE_NAMES.get(s, s)), "hook %s reported index %d outside bound %d in %s" % (SITE_NAMES.get(s, s), f0, f1, m), dict(case=m, line=line))
        try:
            check_case(ctx, m, Tok(toks), line)
        except (ValueError, IndexError) as e:
            ctx.violation("%s:malformed" % m["op"], "unparsable record %s: %s" % (" ".join(toks[:30]), e), dict(case=m, line=line))
    crashed = {c.case_id for c in crashes}
    if missing > len(crashed) + len(touts):
        ctx.inconc("%d cases produced no record" % (missing - len(crashed)))
    ctx.rule = ("exhaustive: every shape of dim 1..%d with extents 1..%d x every flat offset x 4 container kinds x 4 index element types "
                "(round trip both ways, strides, in-range), ndindex order, ndarray row/column-major buffers filled through a(i...); "
                "sampled: %d shapes with element counts near 2^24..2^40. distinct = (op, kind, etype, shape) tuples with more than one element" % (maxdim, maxext, nlarge))
    ctx.exhaustive = False
    ctx.set("hook_events", hacc.summary())
    ctx.set("crashes_contained", len(crashes))
    ctx.set("small_shapes", len(small))
    if hacc.events.get(0, 0) == 0 or hacc.events.get(1, 0) == 0:
        ctx.inconc("ndarray bounds hooks never fired")


def check_case(ctx, m, t, line):
    shape = m["shape"]
    det = dict(case=m, line=line)
    if m["op"] == "roundtrip":
        kname = KINDS[m["kind"]]
        ename = ETYPES[m["et"]][0]
        sc = sizeclass(shape)
        base = "roundtrip:%s:%s:%s" % (kname, ename, sc)
        t.expect("ST")
        st = t.vec()
        if st != strides_of(shape):
            ctx.violation(base + ":strides", "compute_strides(%s)=%s expected %s" % (shape, st, strides_of(shape)), det)
        t.expect("PR")
        pr = t.i()
        p = 1
        for e in shape:
            p *= e
        if pr != p:
            ctx.violation(base + ":product", "product(%s)=%d expected %d" % (shape, pr, p), det)
        for off in m["offs"]:
            t.expect("O")
            o = t.i()
            i1 = t.vec()
            i2 = t.vec()
            o2 = t.i()
            exp = unravel(off, shape)
            if o != off:
                raise ValueError("offset echo mismatch")
            if any(not (0 <= a < e) for a, e in zip(i1, shape)) or len(i1) != len(shape):
                ctx.violation(base + ":index_outside_shape", "compute_indices(%d,%s)=%s not inside the shape" % (off, shape, i1), det)
            if i1 != exp or i2 != exp:
                ctx.violation(base + ":indices", "compute_indices(%d,%s)=%s/%s expected %s" % (off, shape, i1, i2, exp), det)
            if o2 != off:
                ctx.violation(base + ":offset_roundtrip", "compute_offset(compute_indices(%d))=%d shape %s" % (off, o2, shape), det)
        st_ = strides_of(shape)
        for idx in m["idxs"]:
            t.expect("I")
            o = t.i()
            back = t.vec()
            eo = sum(a * b for a, b in zip(idx, st_))
            if o != eo:
                ctx.violation(base + ":offset", "compute_offset(%s) over shape %s = %d expected %d" % (idx, shape, o, eo), det)
            if back != idx:
                ctx.violation(base + ":index_roundtrip", "compute_indices(compute_offset(%s))=%s shape %s" % (idx, back, shape), det)
        if p > 1:
            ctx.seen(("roundtrip", kname, ename, tuple(shape)))
        if len(ctx.samples) < 2:
            ctx.sample(dict(op="roundtrip", kind=kname, etype=ename, shape=shape, offsets=len(m["offs"])))
    elif m["op"] == "offset_wide":
        kname = KINDS[m["kind"]]
        ename = ETYPES[m["et"]][0]
        for idx in m["idxs"]:
            t.expect("W")
            o = t.i()
            eo = sum(a * b for a, b in zip(idx, m["strides"]))
            if o != eo:
                ctx.violation("offset_wide:%s:%s:offset" % (kname, ename), "compute_offset(%s, strides %s) in %s<%s> containers = %d expected %d (every stride and index fits %s, the offset needs the returned nm_size_t)" % (
                    idx, m["strides"], kname, ename, o, eo, ename), det)
        ctx.seen(("offset_wide", kname, ename, tuple(shape)))
    elif m["op"] == "ndindex":
        kname = KINDS[m["kind"]]
        t.expect("ND")
        n = t.i()
        exp = list(itertools.product(*[range(e) for e in shape]))
        got = [tuple(t.vec()) for _ in range(n)]
        if n != len(exp):
            ctx.violation("ndindex:%s:size" % kname, "ndindex(%s).size()=%d expected %d" % (shape, n, len(exp)), det)
        elif got != exp:
            if sorted(got) != sorted(exp):
                ctx.violation("ndindex:%s:not_bijective" % kname, "ndindex(%s) repeats or omits a multi-index" % (shape,), det)
            else:
                ctx.violation("ndindex:%s:order" % kname, "ndindex(%s) is not in C order" % (shape,), det)
        if len(exp) > 1:
            ctx.seen(("ndindex", kname, tuple(shape)))
        if len(ctx.samples) < 4:
            ctx.sample(dict(op="ndindex", kind=kname, shape=shape, enumerated=n))
    elif m["op"] == "layout":
        lname = "row" if m["lay"] == 0 else "col"
        bname = "list" if m["bk"] == 0 else "static_vector"
        base = "layout:%s:%s" % (lname, bname)
        ok = t.s()
        if ok != "OK":
            ctx.violation(base + ":resize", "resize(%s) refused" % (shape,), det)
            return
        t.expect("BUF")
        n = t.i()
        buf = [t.i() for _ in range(n)]
        labels = np.arange(n).reshape(shape) + 1000
        exp = labels.flatten("C" if m["lay"] == 0 else "F").tolist()
        if sorted(buf) != sorted(exp):
            ctx.violation(base + ":not_injective", "writing label(i) through a(i...) over shape %s: two indices share a buffer slot or a slot is unused: %s" % (shape, buf[:40]), det)
        elif buf != exp:
            ctx.violation(base + ":buffer_order", "buffer of %s-major array of shape %s is %s expected %s" % (lname, shape, buf[:40], exp[:40]), det)
        t.expect("RD")
        rd = [t.i() for _ in range(n)]
        if rd != labels.flatten().tolist():
            ctx.violation(base + ":read", "a(i...) reads %s expected labels in C order (shape %s)" % (rd[:40], shape), det)
        t.expect("VA")
        if len(shape) <= 3:
            va = [t.i() for _ in range(n)]
            if va != labels.flatten().tolist():
                ctx.violation(base + ":read_variadic", "a(i,j,k) reads %s (shape %s)" % (va[:40], shape), det)
        t.expect("SH")
        sh = t.vec()
        if sh != shape:
            ctx.violation(base + ":shape", "shape() is %s after resize(%s)" % (sh, shape), det)
        if n > 1:
            ctx.seen(("layout", lname, bname, tuple(shape)))
        if len(ctx.samples) < 6:
            ctx.sample(dict(op="layout", layout=lname, buffer=bname, shape=shape, buffer_labels=buf[:12]))
