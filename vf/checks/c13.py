"""C13: per-thread device kernel body reproduces host evaluation for any launch geometry."""
import hashlib
import math
import os
from concurrent.futures import ThreadPoolExecutor

import numpy as np

from .. import build as B
from .. import run as R
from ..core import Inconclusive
from ..util import Tok, split_hooks, fmt_vec, SITE_NAMES
from ..c13_pipes import PIPES, QUICK_GROUPS, ALL_GROUPS, UAS_CLASSES, DEN, expected

CLAIM = dict(
    technique="runtime monitoring: host simulation of device launches calling the library's kernel-body functions per simulated thread "
              "(sequential schedules with a per-thread write-set monitor, guard regions, KERNEL_WRITE hook) under ASan+UBSan, "
              "and real concurrency on 8-16 std::threads under ThreadSanitizer; oracles: host evaluation and NumPy",
    text="For 16 (quick) / 66 (thorough) compile-time view pipelines of depth 1..3 over device-tested operations (incl. an explicit broadcast_to under unary / binary ufuncs whose other operand does not force the shape) and run-time operand "
         "shapes (dim 1..4), data and parameters, the harness mirrors the host side of cuda/hip context_t::run (get_function_composition, "
         "get_function_operands, device copies, device_array{ptr, static_vector<size_t,8>, dim}, output pointer + shape pointer + dim) "
         "and executes, for every thread of a 1-d launch, exactly create_mutable_array<0> / functional::apply / assign_result. "
         "Block sizes 1..33, grids from exact cover to 2x over-provisioned plus the grid the contexts really use, CUDA/HIP and SYCL id "
         "conventions, thread orders ascending/descending/interleaved/block-reversed/random, every thread executed twice. After every "
         "simulated thread the whole over-allocated buffer is diffed (only out[gid] may change; gid>=size must change nothing); "
         "final buffers are compared with host evaluation (bit-exact) and NumPy; the same launches run concurrently under TSan. "
         "Held on the launches observed, not a proof.",
    note="Cannot be compiled or run here: the __global__/SYCL/OpenCL kernel entry points, the launch-size arithmetic and the memory "
         "transfers of the real contexts (no nvcc/hipcc/SYCL/OpenCL, no devices) - the launch formula is mirrored in Python, the kernel "
         "*body* is what is executed. The second operand route (raw pointer/shape/dim triples rebuilt with create_array<0>, the OpenCL "
         "kernels' way) is combined with functional::apply, which no shipped kernel does literally. Trusted: ASan/UBSan/TSan, NumPy, "
         "the harness' mirror of context_t::run. Host threads are a coarser interleaving than a GPU's; TSan reports races it observes.",
    ref="DESIGN.md 4/C13")

SRC = os.path.join(B.HARNESS, "c13_devsim.cpp")


def targets(groups, flavors=("asan", "tsan")):
    return [B.Target(SRC, fl, extra_flags=["-DC13_GROUP=%d" % g], name="c13_devsim_g%d" % g) for g in groups for fl in flavors]


TARGETS_QUICK = [lambda: targets(QUICK_GROUPS)]

EXTRACTION_CLASS = {"chain": None, "ufunc_view_op": "binary_ufunc_with_view_operand", "tree_right_view": "view_operand_in_non_first_position"}
UAS_KINDS = ("asan:stack-use-after-scope", "asan:heap-use-after-free", "asan:stack-use-after-return")

SENTINEL = -77770000
GUARDVAL = -88880000
GUARD = 48
SEQ_KINDS = ["asc", "desc", "evenodd", "blockrev", "rand", "adj2", "ascdesc2", "rand2"]
MT_KINDS = ["rand", "asc", "evenodd", "blockrev", "desc"]
GRID_CLASSES = ["exact", "exact+1", "mid", "2x"]


def make_order(kind, T, bs, rng):
    ids = list(range(T))
    if kind == "asc":
        return ids
    if kind == "desc":
        return ids[::-1]
    if kind == "evenodd":
        return (ids[0::2] + ids[1::2]) if rng.random() < 0.5 else (ids[1::2] + ids[0::2])
    if kind == "blockrev":
        nb = (T + bs - 1) // bs
        out = []
        for b in range(nb - 1, -1, -1):
            out += ids[b * bs:(b + 1) * bs]
        return out
    if kind == "rand":
        rng.shuffle(ids)
        return ids
    if kind == "adj2":
        return [i for i in ids for _ in (0, 1)]
    if kind == "ascdesc2":
        return ids + ids[::-1]
    if kind == "rand2":
        ids = ids + ids
        rng.shuffle(ids)
        return ids
    raise ValueError(kind)


def grid_blocks(cls, n, bs, rng):
    exact = (n + bs - 1) // bs
    two = (2 * n + bs - 1) // bs
    if cls == "exact":
        return exact
    if cls == "exact+1":
        return exact + 1
    if cls == "2x":
        return max(two, exact + 1)
    return rng.randint(exact, max(two, exact))


class Gen:
    """deterministic rotation through block sizes / grid classes / order kinds, seeded sampling for the rest"""

    def __init__(self, rng):
        self.rng = rng
        self.bs = 0
        self.gc = 0
        self.ok = 0
        self.mk = 0
        self.P = 0

    def next_bs(self):
        self.bs = self.bs % 33 + 1
        return self.bs

    def seq_launches(self, n, raw, ngeo, norders):
        rng = self.rng
        out = []
        li = 0
        for g in range(ngeo):
            bs = self.next_bs()
            cls = GRID_CLASSES[self.gc % 4]
            self.gc += 1
            nb = grid_blocks(cls, n, bs, rng)
            style = 1 if (self.gc % 5 == 0) else 0
            for _ in range(norders):
                kind = SEQ_KINDS[self.ok % len(SEQ_KINDS)]
                self.ok += 1
                route = (li % 2) if raw else 0
                li += 1
                out.append(dict(mt=0, route=route, style=style, bs=bs, nb=nb, cls=cls, kind=kind, order=make_order(kind, bs * nb, bs, rng)))
        # the geometry the contexts really use: cuda/hip <<<ceil(n/32)*32 blocks, 32 threads>>>, sycl nd_range(ceil(n/32)*32, 32)
        ts = int(math.ceil(float(n) / 32)) * 32
        out.append(dict(mt=0, route=0, style=0, bs=32, nb=ts, cls="ctx", kind="asc", order=make_order("asc", 32 * ts, 32, rng)))
        out.append(dict(mt=0, route=1 if raw else 0, style=1, bs=32, nb=ts // 32, cls="ctx", kind="rand", order=make_order("rand", ts, 32, rng)))
        return out

    def mt_launches(self, n, raw, count, repeat):
        rng = self.rng
        out = []
        for k in range(count):
            bs = self.next_bs()
            cls = GRID_CLASSES[self.gc % 4]
            self.gc += 1
            nb = grid_blocks(cls, n, bs, rng)
            style = 1 if (self.gc % 5 == 0) else 0
            kind = MT_KINDS[self.mk % len(MT_KINDS)]
            self.mk += 1
            P = [8, 12, 16, 10, 14][self.P % 5]
            self.P += 1
            order = make_order(kind, bs * nb, bs, rng)
            for r in range(repeat):
                out.append(dict(mt=P, route=(k % 2) if raw else 0, style=style, bs=bs, nb=nb, cls=cls, kind=kind, order=order))
        return out


def crash_kind(c):
    k = c.kind()
    if k == "tsan":
        if "data race" in c.stderr:
            return "tsan:data-race"
        if "DEADLYSIGNAL" in c.stderr or "SEGV" in c.stderr:
            return "tsan:segv"
        return "tsan:other"
    return k


def fmt_launch(L):
    return "%d %d %d %d %d %s" % (L["mt"], L["route"], L["style"], L["bs"], L["nb"], fmt_vec(L["order"]))


def sched_hash(L):
    h = hashlib.sha1()
    h.update(("%d %d %d %d|" % (L["mt"], L["style"], L["bs"], L["nb"])).encode())
    h.update(",".join(map(str, L["order"])).encode())
    return h.hexdigest()[:16]


def fmt_arr(a):
    return "%s %s" % (fmt_vec(list(a.shape)), fmt_vec(a.flatten().tolist()))


def gen_case(pipe, rng):
    for _ in range(200):
        arrs, p = pipe.gen(rng)
        try:
            exp = expected(pipe, arrs, p)
        except Exception:
            exp = None
        if exp is not None:
            return arrs, [int(x) for x in p], exp
    raise Inconclusive("generator of pipeline %s produced no usable case" % pipe.slug)


def close(a, b, tag):
    if a == b:
        return True
    if tag in ("f4", "f8"):
        return abs(a - b) <= 2e-6 + 2e-5 * max(abs(a), abs(b))
    return False


def run(ctx):
    quick = ctx.tier == "quick"
    groups = QUICK_GROUPS if quick else ALL_GROUPS
    res = B.build(targets(groups))
    bad = [t for t in res if t.error]
    if bad:
        raise Inconclusive("harness build failed:\n" + "\n".join("%s[%s]: %s" % (t.name, t.flavor, t.error[-1500:]) for t in bad[:2]))
    bins = {(t.name, t.flavor): t.binary for t in res}
    rng = ctx.rng
    gen = Gen(rng)

    ncase_seq, ngeo, norders = (12, 6, 6) if quick else (16, 8, 8)
    ncase_mt, nmt, repeat = (6, 6, 3) if quick else (6, 8, 20)

    jobs = {}     # (group, flavor) -> list of (id, line)
    meta = {}
    cid = 0
    for pid in sorted(PIPES):
        pipe = PIPES[pid]
        if pipe.group not in groups:
            continue
        for flavor, ncase in (("asan", ncase_seq), ("tsan", ncase_mt)):
            for k in range(ncase):
                arrs, p, exp = gen_case(pipe, rng)
                n = int(exp.size)
                if flavor == "asan":
                    launches = gen.seq_launches(n, pipe.raw, ngeo, norders)
                    launches += gen.mt_launches(n, pipe.raw, 1, 1)
                else:
                    launches = gen.mt_launches(n, pipe.raw, nmt, repeat)
                cid += 1
                line = "%d run %d %d %s %s %s %s %d %d %s" % (
                    cid, pid, DEN if pipe.dtype == "f" else 1, fmt_arr(arrs[0]), fmt_arr(arrs[1]), fmt_arr(arrs[2]), fmt_vec(p),
                    len(launches), GUARD, " ".join(fmt_launch(L) for L in launches))
                jobs.setdefault((pipe.group, flavor), []).append((str(cid), line))
                meta[str(cid)] = dict(pipe=pipe, arrs=arrs, p=p, exp=exp, launches=launches, flavor=flavor, line_head=line[:400])

    # ---- execute: all binaries concurrently, a few batches each
    def run_job(key):
        g, fl = key
        binary = bins[("c13_devsim_g%d" % g, fl)]
        return key, R.run_cases(binary, jobs[key], nbatch=4 if quick else 6, timeout=1800)

    stats = dict(seq=0, mt=0, threads=0, threads_beyond=0, guard_cells=0, hook_events=0, write_set_checks=0,
                 tsan_launches=0, tsan_processes=0, asan_mt=0, extraction_mismatch=0)
    schedules = set()
    geometries = set()
    bs_seen = set()
    cls_seen = {}
    kinds_seen = {}
    mtP = set()
    crashes_all = 0
    with ThreadPoolExecutor(max_workers=4) as ex:
        outs = list(ex.map(run_job, sorted(jobs)))

    # ---- pipelines whose *extraction* (host side, before any kernel runs) dies under ASan with a lifetime error: one class key;
    #      their records from the TSan build are not evaluated (the same undefined behaviour happened there unobserved)
    uas_pipes = set()
    for key, (results, crashes, touts) in outs:
        g, fl = key
        for c in crashes:
            m = meta.get(c.case_id)
            if fl == "asan" and m and c.kind() in UAS_KINDS and m["pipe"].cls in UAS_CLASSES:
                uas_pipes.add(m["pipe"].pid)
    skipped_tsan = 0

    for key, (results, crashes, touts) in outs:
        g, fl = key
        if fl == "tsan":
            stats["tsan_processes"] += min(len(jobs[key]), 4 if quick else 6) + len(crashes)
        for c in crashes:
            crashes_all += 1
            m = meta.get(c.case_id)
            slug = m["pipe"].slug if m else "g%d" % g
            if m and m["pipe"].pid in uas_pipes:
                if fl == "asan" and c.kind() in UAS_KINDS:
                    ctx.violation("extraction:%s:asan:use-after-lifetime" % EXTRACTION_CLASS[m["pipe"].cls],
                                  "get_function_composition(%s) reads a view object after its lifetime ended (%s) before any kernel runs" % (m["pipe"].text, c.kind()),
                                  dict(case=m["line_head"], stderr=c.stderr[-3000:]))
                    continue
                if fl == "tsan":
                    continue
            ctx.violation("%s:%s:crash:%s" % (slug, fl, crash_kind(c)),
                          "process died (%s) while simulating launches of %s" % (crash_kind(c), m["pipe"].text if m else "?"),
                          dict(case=m["line_head"] if m else None, stderr=c.stderr[-3000:]))
        for t in touts:
            ctx.inconc("timeout in case %s of group %d [%s]" % (t, g, fl))
        missing = 0
        for cid_, _ in jobs[key]:
            m = meta[cid_]
            if m["pipe"].pid in uas_pipes and fl == "tsan":
                skipped_tsan += 1
                continue
            if cid_ not in results:
                missing += 1
                continue
            toks, _hooks = split_hooks(results[cid_])
            try:
                check_case(ctx, m, Tok(toks), stats, schedules, geometries, bs_seen, cls_seen, kinds_seen, mtP)
            except (ValueError, IndexError) as e:
                ctx.violation("%s:%s:malformed" % (m["pipe"].slug, fl), "unparsable record: %s / %s" % (e, " ".join(toks[:40])), dict(case=m["line_head"]))
        if missing > len(crashes) + len(touts):
            ctx.inconc("%d cases of group %d [%s] produced no record" % (missing, g, fl))

    npipes = len([p for p in PIPES.values() if p.group in groups])
    ctx.rule = ("%d compile-time pipelines (depth 1..3) x seeded operand shapes (dim 1..4)/data/parameters; per case %d geometries x %d thread orders "
                "(block sizes rotate through 1..33, grids exact / exact+1 / sampled / 2x, CUDA-HIP and SYCL id conventions, operand routes "
                "device_array and raw-triple create_array) + the contexts' own grid, all executed sequentially with a per-thread write-set "
                "monitor under ASan+UBSan; %d concurrent launches per TSan case on 8..16 host threads repeated %dx. "
                "evaluations = launches; distinct = (pipeline, operand shapes, parameters, launch geometry) tuples" % (
                    npipes, ngeo, norders, nmt, repeat))
    ctx.exhaustive = False
    ctx.set("pipelines", [dict(id=p.pid, expr=p.text, depth=p.depth, raw_route=bool(p.raw)) for p in sorted(PIPES.values(), key=lambda x: x.pid) if p.group in groups])
    ctx.set("launches_sequential", stats["seq"])
    ctx.set("launches_concurrent_tsan", stats["tsan_launches"])
    ctx.set("launches_concurrent_asan", stats["asan_mt"])
    ctx.set("tsan_processes", stats["tsan_processes"])
    ctx.set("tsan_host_threads", sorted(mtP))
    ctx.set("distinct_schedules_by_hash", len(schedules))
    ctx.set("schedule_hash_examples", sorted(schedules)[:6])
    ctx.set("distinct_geometries", len(geometries))
    ctx.set("block_sizes_covered", sorted(bs_seen))
    ctx.set("grid_classes", cls_seen)
    ctx.set("order_kinds", kinds_seen)
    ctx.set("simulated_threads", stats["threads"])
    ctx.set("simulated_threads_beyond_size", stats["threads_beyond"])
    ctx.set("per_thread_write_set_checks", stats["write_set_checks"])
    ctx.set("guard_cells_checked", stats["guard_cells"])
    ctx.set("kernel_write_hook_events", stats["hook_events"])
    ctx.set("crashes_contained", crashes_all)
    ctx.set("pipelines_with_use_after_lifetime_in_extraction", sorted(PIPES[i].text for i in uas_pipes))
    ctx.set("tsan_cases_not_evaluated_for_those_pipelines", skipped_tsan)
    ctx.set("cases_skipped_extraction_mismatch", stats["extraction_mismatch"])
    if stats["seq"] == 0:
        ctx.inconc("no sequential launch was observed")
    if stats["tsan_launches"] == 0:
        ctx.inconc("no concurrent launch ran in the TSan build")
    if stats["hook_events"] == 0:
        ctx.inconc("KERNEL_WRITE hook never fired")
    if stats["threads_beyond"] == 0:
        ctx.inconc("no thread with global id >= size was simulated")
    if len(bs_seen) < 33:
        ctx.inconc("block sizes covered: %s" % sorted(bs_seen))


def check_case(ctx, m, t, stats, schedules, geometries, bs_seen, cls_seen, kinds_seen, mtP):
    pipe = m["pipe"]
    fl = m["flavor"]
    exp = m["exp"]
    det = dict(pipeline=pipe.text, shapes=[list(a.shape) for a in m["arrs"]], params=m["p"], case=m["line_head"])
    t.expect("M")
    t.i()
    nxt = t.s()
    if nxt == "NOVIEW":
        ctx.violation("%s:host:view_refused" % pipe.slug, "%s: the view constructor refused NumPy-valid arguments %s" % (pipe.text, det["shapes"]), det)
        return
    if nxt != "HOST":
        raise ValueError("unexpected token %s" % nxt)
    host = t.array()
    t.expect("X")
    threw = t.peek() == "T"
    ext = None
    if threw:
        t.s()
    else:
        ext = t.array()
    t.expect("NL")
    nl = t.i()
    n = t.i()
    tag = t.s()
    if host is None or host["data"] is None:
        raise ValueError("no host array")
    # ---- extraction on the host side: apply(get_function_composition(v), operands as device arrays) must be v
    if ext is None or ext["shape"] != host["shape"] or ext["data"] != host["data"] or ext["tag"] != host["tag"]:
        ecls = "view_operand_in_non_first_position" if pipe.tree else (EXTRACTION_CLASS[pipe.cls] or pipe.slug)
        ctx.violation("extraction:%s:apply_of_composition_differs_from_view" % ecls,
                      "%s: apply(get_function_composition(v), get_function_operands(v)) %s, host evaluation of v is shape %s data %s - no launch can reproduce v" % (
                          pipe.text, "throws std::out_of_range while it is read" if threw else "has no value" if ext is None else "is shape %s data %s" % (ext["shape"], ext["data"][:16]), host["shape"], host["data"][:16]), det)
        stats["extraction_mismatch"] += 1
        ctx.ev()
        if nl != 0:
            raise ValueError("harness launched although the extraction check failed")
        return
    tag = host["tag"] if tag == "-" else tag
    # ---- host evaluation against NumPy (shape and every element)
    eflat = exp.flatten().tolist()
    host_ok = host["shape"] == list(exp.shape) and len(host["data"]) == len(eflat) and all(close(x, y, tag) for x, y in zip(host["data"], eflat))
    if not host_ok:
        ctx.violation("%s:host:host_eval_differs_from_numpy" % pipe.slug,
                      "%s: host evaluation has shape %s data %s, NumPy shape %s data %s" % (pipe.text, host["shape"], host["data"][:24], list(exp.shape), eflat[:24]), det)
    if n != len(host["data"]):
        raise ValueError("size mismatch")
    if nl != len(m["launches"]):
        raise ValueError("launch count mismatch")
    prev = None
    for L in m["launches"]:
        t.expect("L")
        executed, executed_in, hev, hvi, hf0, hf1, stray, oob, own, intact, shapeok = [t.i() for _ in range(11)]
        hv = t.vec()
        k = t.s()
        if k == "SAME":
            buf = prev
        elif k == "BUF":
            bn = t.i()
            buf = [t.num(tag) for _ in range(bn)]
            prev = buf
        else:
            raise ValueError("bad buffer token %s" % k)
        if buf is None or len(buf) != n + 2 * GUARD:
            raise ValueError("bad buffer length")
        mode = "seq" if L["mt"] == 0 else "mt"
        route = "raw" if L["route"] else "devarr"
        style = "sycl" if L["style"] else "cuda"
        base = "%s:%s:%s:%s:" % (pipe.slug, route, style, mode if fl.startswith("asan") else "tsan-" + mode)
        T = L["bs"] * L["nb"]
        ld = dict(det, launch=dict(mt=L["mt"], route=route, style=style, block_size=L["bs"], blocks=L["nb"], grid=L["cls"], order_kind=L["kind"], order_head=L["order"][:40], size=n))
        ctx.ev()
        if n > 1:
            ctx.seen((pipe.pid, tuple(tuple(a.shape) for a in m["arrs"]), tuple(m["p"]), L["style"], L["bs"], L["nb"]))
        schedules.add(sched_hash(L))
        geometries.add((L["style"], L["bs"], L["nb"]))
        bs_seen.add(L["bs"])
        cls_seen[L["cls"]] = cls_seen.get(L["cls"], 0) + 1
        kinds_seen[L["kind"]] = kinds_seen.get(L["kind"], 0) + 1
        beyond = sum(1 for g in L["order"] if g >= n)
        stats["threads"] += len(L["order"])
        stats["threads_beyond"] += beyond
        stats["hook_events"] += hev
        stats["guard_cells"] += 2 * GUARD
        if L["mt"] == 0:
            stats["seq"] += 1
            stats["write_set_checks"] += executed
        elif fl == "tsan":
            stats["tsan_launches"] += 1
            mtP.add(L["mt"])
        else:
            stats["asan_mt"] += 1
        if executed != len(L["order"]) or executed_in != len(L["order"]) - beyond:
            raise ValueError("harness executed %d/%d threads, expected %d/%d" % (executed, executed_in, len(L["order"]), len(L["order"]) - beyond))
        if T < n:
            raise ValueError("generator produced a launch with fewer threads than elements")
        # ---- guards
        front, mid, back = buf[:GUARD], buf[GUARD:GUARD + n], buf[GUARD + n:]
        if any(x != GUARDVAL for x in front) or any(x != GUARDVAL for x in back):
            where = [i - GUARD for i, x in enumerate(buf) if (i < GUARD or i >= GUARD + n) and x != GUARDVAL]
            ctx.violation(base + "guard_overwritten", "%s: cells at offsets %s relative to the output (size %d) were written; launch %s" % (pipe.text, where[:8], n, ld["launch"]), ld)
        # ---- every cell against host evaluation (bit-exact: same functions, same operand values) and NumPy
        if mid != host["data"]:
            bad = [i for i in range(n) if mid[i] != host["data"][i]]
            unwritten = [i for i in bad if mid[i] == SENTINEL]
            sym = "cells_not_written" if len(unwritten) == len(bad) else "output_differs_from_host_eval"
            ctx.violation(base + sym, "%s: after the launch %d of %d cells differ from host evaluation (first at flat index %d: device %s host %s; %d still hold the sentinel); launch %s" % (
                pipe.text, len(bad), n, bad[0], mid[bad[0]], host["data"][bad[0]], len(unwritten), ld["launch"]), ld)
        if not all(close(x, y, tag) for x, y in zip(mid, eflat)) and host_ok:
            ctx.violation(base + "output_differs_from_numpy", "%s: device buffer %s NumPy %s" % (pipe.text, mid[:24], eflat[:24]), ld)
        # ---- hook: one KERNEL_WRITE event per executed thread with gid < size, none with idx >= size
        if hvi:
            ctx.violation(base + "thread_beyond_size_wrote_hook", "%s: assign_result wrote for idx=%d with size=%d; launch %s" % (pipe.text, hf0, hf1, ld["launch"]), ld)
        if hev != executed_in:
            sym = "more_writing_threads_than_ids_below_size" if hev > executed_in else "fewer_writing_threads_than_ids_below_size"
            ctx.violation(base + sym, "%s: %d threads wrote (KERNEL_WRITE events) but %d executed threads have global id < size=%d; launch %s" % (pipe.text, hev, executed_in, n, ld["launch"]), ld)
        # ---- per-thread write sets (sequential mode)
        if L["mt"] == 0:
            if oob:
                ctx.violation(base + "thread_beyond_size_wrote", "%s: %d cells changed while threads with global id >= size=%d ran; launch %s" % (pipe.text, oob, n, ld["launch"]), ld)
            if stray:
                ctx.violation(base + "thread_wrote_foreign_cell", "%s: %d cells other than out[gid] changed while a thread gid < size ran; launch %s" % (pipe.text, stray, ld["launch"]), ld)
            if own != executed_in:
                ctx.violation(base + "thread_did_not_write_own_cell", "%s: %d of %d threads with gid < size left out[gid] at the sentinel; launch %s" % (pipe.text, executed_in - own, executed_in, ld["launch"]), ld)
        if not intact:
            ctx.violation(base + "operand_buffer_modified", "%s: a device copy of an operand (or its shape buffer) changed during the launch %s" % (pipe.text, ld["launch"]), ld)
        if not shapeok:
            ctx.violation(base + "output_shape_buffer_modified", "%s: the output shape buffer changed during the launch %s" % (pipe.text, ld["launch"]), ld)
        for i in range(0, len(hv), 3):
            s = SITE_NAMES.get(hv[i], str(hv[i]))
            ctx.violation(base + "hook:" + s, "%s: bounds hook %s saw index %d outside extent %d inside a kernel body; launch %s" % (pipe.text, s, hv[i + 1], hv[i + 2], ld["launch"]), ld)
        want = {0: ("asan", 0, "rand2"), 1: ("tsan", 1, "rand"), 2: ("asan", 0, "blockrev"), 3: ("tsan", 1, "evenodd"), 4: ("asan", 0, "ascdesc2"), 5: ("asan", 0, "asc")}.get(len(ctx.samples))
        if want and want == (fl, 1 if L["mt"] else 0, L["kind"]) and n > 3 and all(sm["pipeline"] != pipe.text for sm in ctx.samples):
            ctx.sample(dict(pipeline=pipe.text, operand_shapes=det["shapes"], params=m["p"], launch=ld["launch"], threads_executed=len(L["order"]),
                            threads_beyond_size=beyond, writing_threads_seen_by_hook=hev, output_head=mid[:8], build=fl, schedule_hash=sched_hash(L)))
