"""C16: linear-algebra routines (matmul x2, dot, inner, outer, vecdot, tensordot, kron, trace) equal NumPy on integer-valued data."""
import itertools
import os

import numpy as np

from .. import viewrun as V
from ..util import all_shapes, fmt_vec, HookAcc

CLAIM = dict(
    technique="runtime monitoring: sanitizer-instrumented execution of every linear-algebra view on dynamic ndarrays with run-time integer-valued data, NumPy reference oracle (exact) over the recorded shape and every lazily read element",
    text="view::matmul (slicing implementation) and view::matmulv2 (tile/reshape/transpose/multiply/sum pipeline), dot, inner, outer, vecdot (keepdims off/on), tensordot (run-time integer axes 0..min dim, the default, every explicit axis pairing incl. negative axes), kron and trace (run-time offset/axes) are executed on int32/float/double dynamic ndarrays whose integer-valued data come from the case file; quick: every NumPy-valid pair of operand shapes of dim 1..3 / extents 1..3 for matmul/dot/inner/vecdot/tensordot (all batch-broadcast patterns, 1-d promotion on either side, every contraction length), sampled pairs for outer/kron; thorough adds 100k sampled cases of dim<=4 / extents<=4. Shape and every element read through view(i...) are compared exactly with numpy.matmul/dot/inner/outer/vecdot/tensordot/kron/trace. Held-on-observed.",
    note="Trusted: NumPy as the reference; the harness' own odometer for element reads. Only NumPy-valid arguments (shape mismatches are C15's), only the fully dynamic ndarray kind (other kinds are C09's). A result NumPy returns as a 0-d scalar is accepted both as a number and as a 0-dim array.",
    ref="DESIGN.md 4/C16")
HARNESS = ["c16_matmul", "c16_dot", "c16_outer", "c16_tensordot", "c16_kron", "c16_matmul_fd"]
FD_DIMS = {(2, 2), (3, 2), (2, 3), (3, 3), (4, 3), (3, 4), (4, 2), (2, 4)}      # dimension pairs instantiated by harness/c16_matmul_fd.cpp
TARGETS_QUICK = [(h, "asan") for h in HARNESS]

NPDT = {"i": np.int32, "f": np.float32, "d": np.float64}


# ---------------------------------------------------------------- data
def mkdata(rng, n, dtype):
    """integer-valued data, small enough for every sum of products to be exact in float32"""
    if dtype == "i" and rng.random() < 0.5:
        # distinct labels with random signs (provenance)
        vals = list(range(1, n + 1))
        rng.shuffle(vals)
        return [v if rng.random() < 0.7 else -v for v in vals]
    return [rng.randint(-4, 4) for _ in range(n)]


def fmt_operand(shape, data):
    return "%s %s" % (fmt_vec(shape), fmt_vec(data))


def pick_dtype(rng):
    r = rng.random()
    return "i" if r < 0.6 else ("f" if r < 0.8 else "d")


def np_operand(shape, data, dtype):
    return np.array(data, dtype=NPDT[dtype]).reshape(shape)


def size(s):
    return int(np.prod(s)) if len(s) else 1


def valid(fn, sa, sb, *extra, **kw):
    try:
        fn(np.zeros(sa, dtype=np.int8), np.zeros(sb, dtype=np.int8), *extra, **kw)
        return True
    except (ValueError, IndexError, TypeError):
        return False


def neg_variant(ax, dim, rng, p=0.3):
    return ax - dim if rng.random() < p else ax


# ---------------------------------------------------------------- generator
def gen_cases(rng, tier):
    quick = tier == "quick"
    cases = []

    def add2(op, sa, sb, extra_args="", **m):
        dt = pick_dtype(rng)
        da, db = mkdata(rng, size(sa), dt), mkdata(rng, size(sb), dt)
        args = "%s %s %s" % (dt, fmt_operand(sa, da), fmt_operand(sb, db))
        if extra_args:
            args += " " + extra_args
        m.update(op=op, args=args, dtype=dt, sa=list(sa), sb=list(sb), da=da, db=db)
        cases.append(m)

    small = [s for s in all_shapes(3, 3, mindim=1)]
    pairs = [(a, b) for a in small for b in small]

    def sub(lst, k):
        return lst if len(lst) <= k else rng.sample(lst, k)

    # ---- matmul: every valid pair, both implementations
    mm = [(a, b) for a, b in pairs if valid(np.matmul, a, b)]
    for a, b in mm:
        add2("la_matmul", a, b)
        add2("la_matmulv2", a, b)
    # ---- matmul on operands of compile-time dimension (fixed-dim shape array): every valid pair of dims in FD_DIMS incl. dim 4
    #      (batch broadcasting of a lower-rank operand that has batch axes of extent 1 / > 1)
    small4 = small + [s for s in all_shapes(4, 2, mindim=4)] + [[2, 1, 3, 2], [1, 2, 2, 3], [2, 2, 1, 2], [1, 1, 2, 2], [2, 1, 1, 3], [3, 1, 2, 1], [1, 3, 1, 2]]
    fd = [(a, b) for a in small4 for b in small4 if (len(a), len(b)) in FD_DIMS and valid(np.matmul, a, b)]
    def _bc(a, b):
        # lower-rank operand keeps a batch axis, and extents 1 occur on batch axes (the broadcasting decisions)
        return len(a) != len(b) and min(len(a), len(b)) >= 3 and (1 in a[:-2] or 1 in b[:-2])
    hard = [p_ for p_ in fd if _bc(*p_)]
    rest = [p_ for p_ in fd if not _bc(*p_)]
    for a, b in hard + sub(rest, 300 if quick else 4000):
        dt_save = None
        da, db = mkdata(rng, size(a), "i"), mkdata(rng, size(b), "i")
        for op in ("la_matmul_fd", "la_matmulv2_fd"):
            cases.append(dict(op=op, args="i %s %s" % (fmt_operand(a, da), fmt_operand(b, db)), dtype="i", sa=list(a), sb=list(b), da=da, db=db))
    # ---- dot / inner
    dd = [(a, b) for a, b in pairs if valid(np.dot, a, b)]
    for a, b in (sub(dd, 350) if quick else dd):
        add2("la_dot", a, b)
    ii = [(a, b) for a, b in pairs if valid(np.inner, a, b)]
    for a, b in (sub(ii, 350) if quick else ii):
        add2("la_inner", a, b)
    # ---- outer: all pairs of dim<=2 + sample
    lo = [(a, b) for a, b in pairs if len(a) <= 2 and len(b) <= 2]
    hi = [(a, b) for a, b in pairs if not (len(a) <= 2 and len(b) <= 2)]
    for a, b in lo + sub(hi, 200 if quick else 1377):
        add2("la_outer", a, b)
    # ---- vecdot
    vv = [(a, b) for a, b in pairs if valid(np.vecdot, a, b)]
    for a, b in (sub(vv, 220) if quick else vv):
        for kd in (0, 1):
            add2("la_vecdot", a, b, "%d" % kd, keepdims=kd)
    # ---- tensordot, integer axes
    for n in range(0, 4):
        tn = [(a, b) for a, b in pairs if len(a) >= n and len(b) >= n and valid(np.tensordot, a, b, n)]
        for a, b in sub(tn, (120 if n == 0 else 200) if quick else 1600):
            add2("la_tensordot_n", a, b, "%d" % n, n=n)
            if n == 2 and rng.random() < 0.5:
                add2("la_tensordot_default", a, b, n=2)
    # ---- tensordot, explicit axes: every (lhs axes, rhs axes) pairing of dims 1..3
    for dim_a in range(1, 4):
        for dim_b in range(1, 4):
            for k in range(1, min(dim_a, dim_b) + 1):
                for la in itertools.permutations(range(dim_a), k):
                    for ra in itertools.permutations(range(dim_b), k):
                        for _ in range(3 if quick else 12):
                            sa = [rng.randint(1, 3) for _ in range(dim_a)]
                            sb = [rng.randint(1, 3) for _ in range(dim_b)]
                            for x, y in zip(la, ra):
                                sb[y] = sa[x]
                            lav = [neg_variant(x, dim_a, rng) for x in la]
                            rav = [neg_variant(y, dim_b, rng) for y in ra]
                            add2("la_tensordot_axes", sa, sb, "%s %s" % (fmt_vec(lav), fmt_vec(rav)), la=lav, ra=rav)
    # ---- kron
    for da_ in range(1, 4):
        for db_ in range(1, 4):
            pp = [(a, b) for a, b in pairs if len(a) == da_ and len(b) == db_]
            for a, b in sub(pp, 40 if quick else 729):
                add2("la_kron", a, b)
    # ---- trace
    tshapes = [s for s in all_shapes(3, 3, mindim=2)] + ([] if quick else [s for s in all_shapes(4, 3, mindim=4)])
    for s in tshapes:
        d = len(s)
        axp = [(i, j) for i in range(d) for j in range(d) if i != j]
        for (i, j) in axp:
            n1, n2 = s[i], s[j]
            offs = list(range(-(n1 + 1), n2 + 2))
            for off in offs:
                dt = pick_dtype(rng)
                data = mkdata(rng, size(s), dt)
                a1, a2 = neg_variant(i, d, rng), neg_variant(j, d, rng)
                cases.append(dict(op="la_trace", args="%s %s %d %d %d" % (dt, fmt_operand(s, data), off, a1, a2), dtype=dt, sa=s, da=data, offset=off, axis1=a1, axis2=a2))
        dt = pick_dtype(rng)
        data = mkdata(rng, size(s), dt)
        cases.append(dict(op="la_trace_default", args="%s %s" % (dt, fmt_operand(s, data)), dtype=dt, sa=s, da=data, offset=0, axis1=0, axis2=1))

    # ---- thorough: dim <= 4, extents <= 4 sampled
    if not quick:
        big = [s for s in all_shapes(4, 4, mindim=1)]
        budget = dict(la_matmul=15000, la_matmulv2=15000, la_dot=10000, la_inner=10000, la_outer=5000, la_vecdot=10000,
                      la_tensordot_n=12000, la_tensordot_axes=13000, la_kron=5000, la_trace=5000)

        def rand_shape(dmin=1, dmax=4):
            return [rng.randint(1, 4) for _ in range(rng.randint(dmin, dmax))]

        def bcast_batch(n):
            """two batch shapes (lengths <= n) that broadcast together"""
            full = [rng.randint(1, 4) for _ in range(n)]
            out = []
            for _ in range(2):
                k = rng.randint(0, n)
                b = full[n - k:]
                out.append([e if rng.random() < 0.6 else 1 for e in b])
            return out

        for op in ("la_matmul", "la_matmulv2"):
            for _ in range(budget[op]):
                K, M, N = rng.randint(1, 4), rng.randint(1, 4), rng.randint(1, 4)
                r = rng.random()
                if r < 0.15:
                    a, b = [K], [K] if rng.random() < 0.2 else bcast_batch(2)[0] + [K, N]
                elif r < 0.3:
                    a, b = bcast_batch(2)[0] + [M, K], [K]
                else:
                    ba, bb = bcast_batch(2)
                    a, b = ba + [M, K], bb + [K, N]
                if valid(np.matmul, a, b):
                    add2(op, a, b)
        for _ in range(budget["la_dot"]):
            a = rand_shape()
            b = rand_shape()
            if len(b) == 1:
                b[0] = a[-1]
            else:
                b[-2] = a[-1]
            if size(a) * size(b) // a[-1] <= 4096:
                add2("la_dot", a, b)
        for _ in range(budget["la_inner"]):
            a = rand_shape()
            b = rand_shape()
            b[-1] = a[-1]
            if size(a) * size(b) // a[-1] <= 4096:
                add2("la_inner", a, b)
        for _ in range(budget["la_outer"]):
            a, b = rand_shape(), rand_shape()
            if size(a) * size(b) <= 4096:
                add2("la_outer", a, b)
        for _ in range(budget["la_vecdot"]):
            ba, bb = bcast_batch(3)
            K = rng.randint(1, 4)
            kd = rng.randint(0, 1)
            add2("la_vecdot", ba + [K], bb + [K], "%d" % kd, keepdims=kd)
        for _ in range(budget["la_tensordot_n"]):
            a, b = rand_shape(), rand_shape()
            n = rng.randint(0, min(len(a), len(b)))
            for k in range(n):
                b[k] = a[len(a) - n + k]
            if size(a) * size(b) <= 8192:
                add2("la_tensordot_n", a, b, "%d" % n, n=n)
        for _ in range(budget["la_tensordot_axes"]):
            a, b = rand_shape(), rand_shape()
            k = rng.randint(1, min(len(a), len(b)))
            la = rng.sample(range(len(a)), k)
            ra = rng.sample(range(len(b)), k)
            for x, y in zip(la, ra):
                b[y] = a[x]
            lav = [neg_variant(x, len(a), rng) for x in la]
            rav = [neg_variant(y, len(b), rng) for y in ra]
            if size(a) * size(b) <= 8192:
                add2("la_tensordot_axes", a, b, "%s %s" % (fmt_vec(lav), fmt_vec(rav)), la=lav, ra=rav)
        for _ in range(budget["la_kron"]):
            a, b = rand_shape(), rand_shape()
            if size(a) * size(b) <= 4096:
                add2("la_kron", a, b)
        for _ in range(budget["la_trace"]):
            s = rand_shape(2, 4)
            d = len(s)
            i, j = rng.sample(range(d), 2)
            off = rng.randint(-(s[i] + 1), s[j] + 1)
            dt = pick_dtype(rng)
            data = mkdata(rng, size(s), dt)
            a1, a2 = neg_variant(i, d, rng), neg_variant(j, d, rng)
            cases.append(dict(op="la_trace", args="%s %s %d %d %d" % (dt, fmt_operand(s, data), off, a1, a2), dtype=dt, sa=s, da=data, offset=off, axis1=a1, axis2=a2))
        del big
    return cases


# ---------------------------------------------------------------- reference
def expected(m):
    op = m["op"]
    dt = m["dtype"]
    a = np_operand(m["sa"], m["da"], dt)
    if op in ("la_trace", "la_trace_default"):
        return np.asarray(np.trace(a, m["offset"], m["axis1"], m["axis2"]))
    b = np_operand(m["sb"], m["db"], dt)
    if op in ("la_matmul", "la_matmulv2", "la_matmul_fd", "la_matmulv2_fd"):
        return np.asarray(np.matmul(a, b))
    if op == "la_dot":
        return np.asarray(np.dot(a, b))
    if op == "la_inner":
        return np.asarray(np.inner(a, b))
    if op == "la_outer":
        return np.asarray(np.outer(a, b))
    if op == "la_vecdot":
        return np.asarray(np.vecdot(a, b, keepdims=bool(m["keepdims"])))
    if op in ("la_tensordot_n", "la_tensordot_default"):
        return np.asarray(np.tensordot(a, b, m["n"]))
    if op == "la_tensordot_axes":
        return np.asarray(np.tensordot(a, b, (m["la"], m["ra"])))
    if op == "la_kron":
        return np.asarray(np.kron(a, b))
    raise KeyError(op)


def dimclass(d):
    return "1d" if d == 1 else ("2d" if d == 2 else "nd")


def argclass(m):
    op = m["op"]
    sa = m["sa"]
    sb = m.get("sb")
    if op in ("la_matmul", "la_matmulv2", "la_matmul_fd", "la_matmulv2_fd"):
        if len(sa) == 1 and len(sb) == 1:
            return "both1d"
        if len(sa) == 1:
            return "lhs1d"
        if len(sb) == 1:
            return "rhs1d"
        ba, bb = sa[:-2], sb[:-2]
        if not ba and not bb:
            return "2dx2d"
        if ba == bb:
            return "batch_same"
        return "batch_bcast"
    if op in ("la_dot", "la_inner", "la_outer"):
        return "lhs%s:rhs%s" % (dimclass(len(sa)), dimclass(len(sb)))
    if op == "la_vecdot":
        return "%s:%s" % ("keepdims" if m["keepdims"] else "nokeepdims", "same" if sa == sb else "bcast")
    if op in ("la_tensordot_n", "la_tensordot_default"):
        n = m["n"]
        return "n%d:%s" % (n, "full" if n == len(sa) and n == len(sb) else ("lhsfull" if n == len(sa) else ("rhsfull" if n == len(sb) else "partial")))
    if op == "la_tensordot_axes":
        la = [x % len(sa) for x in m["la"]]
        ra = [x % len(sb) for x in m["ra"]]
        k = len(la)
        natural = la == list(range(len(sa) - k, len(sa))) and ra == list(range(k))
        return "k%d:%s" % (k, "natural" if natural else "permuted")
    if op == "la_kron":
        return "lhs_lt_rhs" if len(sa) < len(sb) else ("same_dim" if len(sa) == len(sb) else "lhs_gt_rhs")
    if op in ("la_trace", "la_trace_default"):
        d = len(sa)
        i, j = m["axis1"] % d, m["axis2"] % d
        off = m["offset"]
        n = min(sa[i] + min(off, 0), sa[j] - max(off, 0))
        if n <= 0:
            return "empty_diagonal"
        return "off0" if off == 0 else ("offpos" if off > 0 else "offneg")
    return "-"


def parse(toks):
    if "EXC" in toks:
        # a C++ exception escaped from the library while the result was being read (the record is partial)
        k = toks.index("EXC")
        return {"error": "EXC " + " ".join(toks[k + 1:k + 2])[:200], "partial": toks[:k]}
    rec = V.parse_view_record(toks)
    x = rec.get("X") or []
    rec["X0"] = None
    if len(x) >= 3 and x[0] == "X0":
        rec["X0"] = float.fromhex(x[2]) if x[1][0] == "f" else int(x[2])
    return rec


def compare(rec, exp):
    """None if the lazily read view equals exp (exactly), else description"""
    got = rec["V"]
    if got is None:
        return "result is Nothing, expected shape %s" % (list(exp.shape),)
    if not got.get("scalar") and got.get("shape") is not None and len(got["shape"]) == 0:
        # 0-dim array: its element was read with an empty index (X0)
        if exp.ndim != 0:
            return "shape [] expected %s" % (list(exp.shape),)
        if rec.get("X0") is None:
            return "0-dim result whose element could not be read"
        if float(rec["X0"]) != float(exp):
            return "element [] is %s expected %s" % (rec["X0"], exp)
        return None
    if got.get("scalar") and exp.ndim != 0:
        return "shape [] (number) expected %s" % (list(exp.shape),)
    return V.compare_np(got, exp)


def oracle(ctx, cr):
    m = cr.m
    op = m["op"]
    det = dict(case={k: v for k, v in m.items() if k != "args"}, line=cr.line[:600])
    ac = argclass(m)
    if cr.crash is not None:
        ctx.violation("%s:%s:fault" % (op, ac), "%s lhs %s rhs %s died: %s" % (op, m["sa"], m.get("sb"), cr.crash.kind()), dict(det, stderr=cr.crash.stderr[-3000:]))
        return
    if cr.timeout:
        ctx.inconc("timeout in %s" % cr.line[:200])
        return
    if cr.rec is None:
        return
    ctx.ev()
    if "error" in cr.rec:
        err = cr.rec["error"]
        if not err.startswith("EXC"):
            ctx.violation("%s:malformed_record" % op, err[:300], det)
        else:
            ctx.violation("%s:%s:fault" % (op, ac), "%s lhs %s rhs %s %s threw while the result was read: %s" % (op, m["sa"], m.get("sb"), {k: m[k] for k in ("n", "la", "ra", "offset", "axis1", "axis2", "keepdims") if k in m}, err[-160:]), det)
        return
    exp = expected(m)
    why = compare(cr.rec, exp)
    if why:
        ctx.violation("%s:%s:value" % (op, ac), "%s %s lhs %s rhs %s %s: %s" % (op, m["dtype"], m["sa"], m.get("sb"), {k: m[k] for k in ("n", "la", "ra", "offset", "axis1", "axis2", "keepdims") if k in m}, why), det)
    if exp.size > 1:
        ctx.seen((op, tuple(m["sa"]), tuple(m.get("sb", ())), str([m.get(k) for k in ("n", "la", "ra", "offset", "axis1", "axis2", "keepdims")])))
    if exp.size > 3 and len(ctx.samples) < 8 and ctx.rng.random() < 0.004:
        got = cr.rec["V"]
        ctx.sample(dict(op=op, dtype=m["dtype"], lhs_shape=m["sa"], rhs_shape=m.get("sb"), result_shape=got.get("shape") if got else None, first_elements=(got.get("data") or [])[:8] if got else None))


def run(ctx):
    cases = gen_cases(ctx.rng, ctx.tier)
    only = [t for t in os.environ.get("VERIF_ONLY_OPS", "").split(",") if t]
    if only:
        # debugging aid (mutant triage): restrict the run to these ops ("name" or "prefix*"); only their binaries are built
        cases = [c for c in cases if any(c["op"] == t or (t.endswith("*") and c["op"].startswith(t[:-1])) for t in only)]
        ctx.set("restricted_to_ops", only)
    res = V.run_module_cases(HARNESS, cases, "asan", parse=parse)
    acc = HookAcc()
    norec = 0
    per_op = {}
    for cr in res:
        for (site, f0, f1) in V.hook_problems(cr, acc):
            ctx.violation("%s:%s:fault" % (cr.m["op"], argclass(cr.m) if "sa" in cr.m else "-"), "bounds hook %s: index %d outside bound %d in %s" % (site, f0, f1, cr.line[:300]), dict(line=cr.line[:600], site=site))
        if "sa" not in cr.m:
            ctx.violation("%s:crash_outside_case:%s" % (cr.m.get("src", "?"), cr.crash.kind()), "runner died outside a case: %s" % cr.crash.kind(), dict(stderr=cr.crash.stderr[-3000:]))
            continue
        oracle(ctx, cr)
        per_op[cr.m["op"]] = per_op.get(cr.m["op"], 0) + 1
        if cr.rec is None and cr.crash is None and not cr.timeout:
            norec += 1
    if norec:
        ctx.inconc("%d cases produced no record" % norec)
    ctx.rule = ("NumPy-valid operand shape pairs; quick: all pairs of dim 1..3 / extents 1..3 for matmul (both implementations), dot, inner (<=350 sampled), vecdot x keepdims, "
                "tensordot n=0..3 and every explicit (lhs axes, rhs axes) pairing x 3 shape draws, outer/kron sampled per dim pair, trace over every axis pair and offset incl. empty diagonals; "
                "thorough: + ~100k sampled dim<=4 / extents<=4. distinct = (op, lhs shape, rhs shape, arguments) whose result has more than one element")
    ctx.set("hook_events", acc.summary())
    ctx.set("cases_per_op", per_op)
    ctx.set("cases_generated", len(cases))
    ctx.set("crashes_contained", sum(1 for cr in res if cr.crash is not None))
    if acc.events.get(2, 0) == 0:
        ctx.inconc("view index hook never fired")
