"""C09: results are independent of container kind and of compile- vs run-time knowledge."""
from .. import c09_run as CR
from .. import c09_gen as G

CLAIM = dict(
    technique="runtime monitoring of generated programs: the same numeric call under many type configurations (differential) + NumPy reference + three builds compared line by line; sanitizers on",
    text="Generated translation units (programs drawn from VERIF_SEED, restricted to the compile-probed allow-list vf/c09_supported.json) make the same index-function / view / eval call with shape-like arguments as compile-time constants, literals, clipped, fixed, raw, tuple, bounded, hybrid, dynamic and maybe containers and mixed pairs, with array operands as the 15 ndarray_t kinds, their column-major twins, raw/nested/fixed/hybrid/dynamic arrays, and with the whole call evaluated in a constant expression; every configuration's normalised (has_value, shape, elements) is compared with an independent NumPy model over the baked value sets, every shape admitted by the clipped bounds and seeded samples; asan(gcc+STL)/clang/nostl builds of one program are compared record by record. Besides single views and their evaluation, 14 composite operations (view of a view, depth 2 and 3: sum/cumsum/transpose/reshape/slice/flatten/add/multiply/tile over tile, repeat, pad, broadcast_to, concatenate, sum, add) are generated in every tier over the fixed / hybrid / clipped / raw / nested array kinds with run-time inner arguments: the lazy composite and its single evaluation must both equal NumPy. A second wave of 59 operations (vf/c09_ops2.py: index functions shape_roll / roll / shape_take / take / shape_compress / shape_sliding_window / swapaxes_to_transpose / shape_diagonal / shape_expand / shape_vstack / hstack_axis / arange_shape / split ... and the views flip, roll, take, compress, squeeze, atleast_nd, swapaxes, moveaxis, stack, hstack, vstack, sliding_window, diagonal, trace, tril, triu, where, cumsum, cumprod, prod, amax, amin, mean, resize, expand, arange, linspace, eye, tri, full, zeros, ones, outer, dot, tensordot, kron) is touched under every seed by a deterministic core (constant / fixed / tightly bounded / dynamic index arguments; constant-shape / hybrid / dynamic operands); the quick tier additionally draws 4 of their index functions and 3 of their views from the seed with the full kind list, thorough runs every one. Sampled product of configurations x values: held-on-observed.",
    note="Trusted: NumPy / Python as the reference, the allow-list (combinations the library does not compile are not generated; a program that stops compiling is inconclusive, not a violation), ASan+UBSan+_GLIBCXX_ASSERTIONS builds. Element type of array operands is int only; LeakSanitizer is off in the nostl build (utl::maybe leak belongs to C19).",
    ref="DESIGN.md 3, 4/C09")
TARGETS_QUICK = [CR.quick_targets_seed0]


def run(ctx):
    recs, info = CR.run_plan(ctx, ctx.tier, ctx.seed)
    cov = CR.judge_c09(ctx, recs, info)
    ops = cov["matrix"]
    ctx.set("op_x_configuration_matrix", ops)
    ctx.set("operations", len(ops))
    ctx.set("op_configuration_cells", sum(len(v) for v in ops.values()))
    ctx.set("programs", info["programs"])
    ctx.set("binaries", info["binaries"])
    ctx.set("binaries_compiled_this_run", info["compiled"])
    ctx.set("build_s", info["build_s"])
    ctx.set("flavors", sorted({r.flavor for r in recs}))
    ctx.set("cross_build_comparisons", cov["cross_build_comparisons"])
    ctx.set("failing_calls_not_given_to_instances_without_failure_channel", info.get("failing_calls_not_given_to_instances_without_failure_channel", 0))
    ctx.set("crashes_contained", sum(1 for r in recs if r.crash is not None))
    ctx.set("value_spaces", info["spaces"])
    ctx.set("cells_excluded_pending_triage", info.get("cells_excluded_pending_triage", {}))
    ctx.set("defect_families_observed", cov.get("families", {}))
    ctx.set("instances_cut_short_after_repeated_crashes", info.get("instances_cut_short_after_repeated_crashes", {}))
    if info.get("dropped"):
        ctx.set("configurations_dropped_at_build", info["dropped"])
    ctx.rule = ("programs = generated TUs (one or more operations x all allow-listed configurations, constants drawn from the seed); cases = baked value sets, "
                "every primary shape under the clipped bound (where <= 400) completed by the sampler, and seeded samples; every (instance, value set) is one evaluation; "
                "distinct = (operation, configuration kinds, argument values) whose reference result has more than one element or is a failure")
    ctx.exhaustive = False
    if cov["cross_build_comparisons"] == 0:
        ctx.inconc("no record was produced by two builds of the same program")
