"""C02: element access through arrays and views never leaves the operands' storage."""
import os

import numpy as np

from .. import build as B
from .. import viewrun as V
from ..core import Inconclusive
from ..util import HookAcc, SITE_NAMES
from . import c10 as C10

CLAIM = dict(
    technique="runtime monitoring: bounds/capacity event hooks (NMTOOLS_VERIF) in ndarray access, indexing views and the utl containers + ASan/UBSan/_GLIBCXX_ASSERTIONS, over every accepted-argument execution of the value-level workloads and pipelines, in STL and STL-free builds",
    text="Re-executes every accepted-argument case of the value-level generators (C03..C08, C16, C17 that exist in this tree), the hand-written and the generated C10 pipelines, the view-level slicing workload of C05 (every argument there is accepted: out-of-range bounds are clamped) and the type-level programs of C09/C11 (constant / clipped / fixed / bounded / hybrid containers, 15 ndarray kinds: static_vector capacity events per phase for calls the reference accepts), reading every element lazily and through three eager routes, in the `asan` build and in the `nostl` build (library's own containers, where the hooks see logical size, which libstdc++ assertions cannot); thorough adds `asan-ndebug` (the baseline's configuration), `clang` and valgrind memcheck on a sample. A violation is: a hook event with index >= extent / offset >= buffer length / index >= logical size of a bounded container / a request beyond a static_vector capacity, or any sanitizer / libstdc++ assertion / trap. The run is inconclusive if the bounds hooks observed nothing. Held-on-observed.",
    note="Red zones miss non-adjacent overruns: that is what the hooks are for; raw pointer arithmetic inside SIMD intrinsics is only seen by ASan (C12 runs the SIMD evaluators under ASan with exactly-sized heap operands). Arguments an operation does not validate are out of scope by the statement.",
    ref="DESIGN.md 4/C02")


def _targets():
    import importlib
    from ..integrated import VALUE
    out = []
    names = []
    for n in VALUE:
        for h in importlib.import_module("vf.checks." + n).HARNESS:
            names.append((n, h))
    for fl in ("asan", "nostl"):
        for n, h in [("pipelines", x) for x in C10.HARNESS] + names:
            if fl != "asan" and n not in NOSTL_QUICK:
                continue
            out.append(B.Target(os.path.join(B.HARNESS, h + ".cpp"), fl))
    out = out + C10.gen_quick_targets()      # generated C10 pipelines (asan build only)
    # supplementary workloads (vf/c02_extra.py): the C05 view-level slicing binaries and the type-level programs of C09/C11
    from . import c05 as C05
    from .. import c09_run as CR
    out += [B.Target(os.path.join(B.HARNESS, h + ".cpp"), "asan") for h in C05.V_BINS]
    return out + [t for t in CR.quick_targets_seed0() if t.flavor in ("asan", "nostl")]


TARGETS_QUICK = [_targets]

# supplementary builds in the quick tier are limited to these workloads (compile cost); thorough runs all
NOSTL_QUICK = ("c03", "c04", "pipelines")

BOUNDS_SITES = ("ndarray_index", "ndarray_offset", "view_index", "view_index_mut", "svec_at", "svec_at_cap", "vec_at", "svec_capacity")


def memory_kind(kind):
    """is this process death about an access outside storage / logical bounds?"""
    if kind.startswith("asan:") or kind in ("glibcxx-assert", "signal:SIGSEGV", "signal:SIGBUS") or kind.startswith("terminate:std::out_of_range"):
        return True
    if kind.startswith("ubsan:"):
        return any(w in kind for w in ("out of bounds", "null pointer", "misaligned", "pointer overflow", "pointer index", "insufficient space"))
    return False


def workloads(ctx):
    """(name, harness list, cases, parse)"""
    out = []
    for name, mod in C10.value_modules():
        rng = ctx.rng.__class__(ctx.seed * 104729 + int(name[1:]))
        cases = C10.cap_cases(rng, mod.gen_cases(rng, ctx.tier), 25000)
        out.append((name, mod.HARNESS, cases, getattr(mod, "PARSE", V.parse_view_record)))
    rng = ctx.rng.__class__(ctx.seed * 104729 + 10)
    out.append(("pipelines", C10.HARNESS, C10.gen_pipes(rng, ctx.tier), C10.parse_pipe))
    # the generated C10 pipelines (vf/c10_gen.py): same translation units and cases as C10 itself, asan build only
    gh = C10.GenHarness(ctx.tier, ctx.seed)
    out.append((GEN, gh, gh.cases, C10.parse_pipe))
    return out


GEN = "pipelines_generated"


def run_workload(harness, cases, flavor, parse, **kw):
    if hasattr(harness, "run"):
        return harness.run(cases, flavor, parse, **kw)
    return V.run_module_cases(harness, cases, flavor, parse=parse, **kw)


def exception_text(cr):
    """text of a C++ exception caught by the harness (EXC token), if any"""
    raw = cr.raw or []
    if "EXC" in raw:
        k = raw.index("EXC")
        return " ".join(raw[k:k + 2])
    return None


def accepted(cr):
    """the library accepted the arguments (did not report Nothing)"""
    rec = cr.rec
    if rec is None or "error" in rec:
        return True
    if "F" in rec:
        return rec["F"] is not None and rec["F"].get("V") is not None
    rs = C10.recs_of(rec)
    return any(r.get("V") is not None for r in rs) if rs else True


def run(ctx):
    quick = ctx.tier == "quick"
    flavors = ["asan", "nostl"] if quick else ["asan", "nostl", "asan-ndebug", "clang"]
    wl = workloads(ctx)
    summary = {}
    total_bounds_events = 0
    ncrash = 0
    other = {}
    skipped = []
    for flavor in flavors:
        acc = HookAcc()
        nrun = 0
        for name, harness, cases, parse in wl:
            if quick and flavor != "asan" and name not in NOSTL_QUICK:
                continue
            if name == GEN and flavor != "asan":
                continue
            try:
                res = run_workload(harness, cases, flavor, parse)
            except Inconclusive as e:
                if flavor == "asan":
                    raise
                # supplementary flavour: a harness that does not build there is recorded, not a verdict
                skipped.append("%s[%s]: %s" % (name, flavor, str(e)[:200].replace("\n", " ")))
                continue
            for cr in res:
                op = cr.m["op"]
                det = dict(case=dict(op=op, args=cr.m.get("args")), line=cr.line, flavor=flavor)
                if cr.crash is not None:
                    ncrash += 1
                    kind = cr.crash.kind()
                    if memory_kind(kind):
                        ctx.violation("%s:crash:%s" % (op, kind), "[%s] %s %s died: %s" % (flavor, op, cr.m.get("args"), kind), dict(det, stderr=cr.crash.stderr[:2500]))
                    else:
                        # a report that is not about leaving storage (e.g. UBSan invalid enum load inside utl::either in the
                        # STL-free build) is outside this property's statement: recorded, not a verdict
                        other[flavor + ":" + kind] = other.get(flavor + ":" + kind, 0) + 1
                    continue
                if cr.timeout:
                    ctx.inconc("timeout in %s" % cr.line[:200])
                    continue
                if cr.rec is None:
                    continue
                err = exception_text(cr)
                if err and ("range" in err or "out_of" in err):
                    # a bounds-checked container access threw: the library tried to leave the storage
                    ctx.violation("%s:exception:out_of_range" % op, "[%s] %s %s threw %s" % (flavor, op, cr.m.get("args"), err[:160]), det)
                ctx.ev()
                nrun += 1
                bad = acc.add(cr.hooks)
                if bad and accepted(cr):
                    for s, v, f0, f1 in bad:
                        site = SITE_NAMES.get(s, str(s))
                        if site in BOUNDS_SITES:
                            ctx.violation("%s:hook:%s" % (op, site), "[%s] %s %s: %s event outside its bound: value %d, bound %d (%d such events)" % (flavor, op, cr.m.get("args"), site, f0, f1, v), det)
                ev = sum(e for s, (e, v, f0, f1) in cr.hooks.items() if SITE_NAMES.get(s) in BOUNDS_SITES)
                if ev > 0:
                    ctx.seen((flavor, op, cr.m.get("args")))
                if len(ctx.samples) < 5 and ev > 50 and ctx.rng.random() < 0.005:
                    ctx.sample(dict(flavor=flavor, op=op, args=cr.m.get("args"), hook_events={SITE_NAMES.get(s, s): e for s, (e, v, f0, f1) in cr.hooks.items()}))
        summary[flavor] = dict(cases=nrun, hooks=acc.summary())
        total_bounds_events += sum(e for s, e in acc.events.items() if SITE_NAMES.get(s) in BOUNDS_SITES)
    # supplementary workloads outside the value-level module interface
    from .. import c02_extra as X
    sv = X.run_slice_views(ctx)
    summary["slice_views[asan]"] = sv
    total_bounds_events += sv["bounds_events"]
    ncrash += sv["crashes_contained"]
    ctx.set("typelevel_programs", X.run_typelevel(ctx))
    # thorough: valgrind memcheck on a sample of the plain build (uninitialised reads feeding addresses)
    if not quick and os.path.exists("/usr/bin/valgrind"):
        acc = HookAcc()
        nrun = 0
        for name, harness, cases, parse in wl:
            if name == GEN or not cases:
                continue
            sample = ctx.rng.sample(cases, max(1, len(cases) // 40))
            try:
                res = V.run_module_cases(harness, sample, "plain", parse=parse, timeout=3600,
                                         wrapper=["valgrind", "--tool=memcheck", "--error-exitcode=97", "--exit-on-first-error=yes", "-q"])
            except Inconclusive as e:
                skipped.append("%s[memcheck]: %s" % (name, str(e)[:200]))
                continue
            for cr in res:
                if cr.crash is not None:
                    ctx.violation("%s:memcheck" % cr.m["op"], "[memcheck] %s %s: %s" % (cr.m["op"], cr.m.get("args"), cr.crash.stderr[-400:]), dict(line=cr.line, stderr=cr.crash.stderr[-2500:]))
                elif cr.rec is not None:
                    nrun += 1
                    ctx.ev()
        summary["memcheck"] = dict(cases=nrun)
    ctx.rule = ("every case of the value-level generators %s and the C10 pipelines, each executed under builds %s with every element read lazily and through 3 eager routes; "
                "distinct = (build, op, arguments) whose execution produced at least one bounds event" % ([n for n, _, _, _ in wl], flavors))
    ctx.set("builds", summary)
    ctx.set("bounds_events_total", total_bounds_events)
    ctx.set("crashes_contained", ncrash)
    ctx.set("reports_outside_this_property", other)
    ctx.set("supplementary_builds_skipped", skipped)
    if total_bounds_events == 0:
        ctx.inconc("no bounds event observed")
