"""C12: SIMD evaluation equals scalar evaluation for every size, shape and layout; no access outside the buffers."""
import math
import os
import time

import numpy as np

from .. import build as B
from .. import run as R
from .. import c12_gen as G
from ..util import split_hooks, build_or_fail, HookAcc, SITE_NAMES

CLAIM = dict(
    technique="runtime monitoring: the same call is executed through the scalar evaluator and through a SIMD context in an "
              "ASan+UBSan build (operands are exact-size heap buffers, so a packed access past the end hits a red zone); "
              "recorded results are decided in Python: bitwise equality for element-wise/broadcast/outer, data-derived "
              "re-association bound (exact on integer-valued data) for reductions and matmul, NumPy as tie-breaker",
    text="Executes unary (12 ops), binary (4 ops: same shape, all 2-d broadcast patterns, rank-mismatched broadcast), outer (3 ops), "
         "add/multiply reduce (axis None / every axis / negative axis, keepdims on/off, dtype= and initial= given) and matmul through "
         "array::fn(args) and array::fn(args, context) for float and double (plus int32 add/subtract/multiply, outer, reduce), for every element count 1..4*lanes+1, row- and column-major "
         "operands, random non-zero data (seeded) plus integer-valued data; quick: x86_AVX + vector_128, thorough: x86_SSE, x86_AVX, "
         "vector_128/256/512, simde_AVX512. Held-on-observed, not a proof.",
    note="Trusted: g++ ASan/UBSan instrumentation of intrinsics and vector-extension code, NumPy/longdouble reference, %a round trip. "
         "Not covered: integer element types other than int32, compile-time-shaped operands, NaN/Inf/zero/denormal inputs, combinations that do not compile "
         "(simde_AVX512 x {hardshrink,hardswish,softshrink}, simde_AVX512 x double x matmul; reciprocal has no SIMD implementation).",
    ref="DESIGN.md 4/C12")


def _groups():
    """all op groups; VERIF_C12_GROUPS=unary,reduce restricts a development run (the verdict then only covers those groups)"""
    only = os.environ.get("VERIF_C12_GROUPS")
    return [g for g in G.GROUPS if not only or g in only.split(",")]


def _targets(tier, groups=None):
    return [B.Target(os.path.join(B.HARNESS, "c12_%s.cpp" % g), "simd", ["-DC12_CTX=%d" % c], name="c12_%s_%s" % (g, G.CONTEXTS[c][0]))
            for c, g in G.plan(tier, groups)]


def _quick_targets():
    return _targets("quick")


TARGETS_QUICK = [_quick_targets]

EPS = {4: float(np.finfo(np.float32).eps), 8: float(np.finfo(np.float64).eps), 32: 0.0}
TINY = {4: float(np.finfo(np.float32).tiny), 8: float(np.finfo(np.float64).tiny), 32: 0.0}


# ---------------------------------------------------------------------------------------------
# record parsing (keeps the raw %a tokens: equal bits <=> equal tokens)
class Rec:
    def __init__(self, toks):
        self.t = toks
        self.p = 0

    def s(self):
        v = self.t[self.p]
        self.p += 1
        return v

    def expect(self, w):
        v = self.s()
        if v != w:
            raise ValueError("expected %s got %s in %s" % (w, v, " ".join(self.t[:40])))

    def array(self):
        k = self.s()
        if k == "N":
            return None
        if k == "S":
            tag = self.s()
            return dict(tag=tag, shape=None, raw=[self.s()])
        if k != "A":
            raise ValueError("bad array token %s in %s" % (k, " ".join(self.t[:40])))
        tag = self.s()
        nd = int(self.s())
        shape = [int(self.s()) for _ in range(nd)]
        n = int(self.s())
        if n < 0:
            raise ValueError("result too large to emit")
        return dict(tag=tag, shape=shape, raw=[self.s() for _ in range(n)])


def fval(tok):
    if "x" not in tok and "n" not in tok:
        return float(int(tok))
    if "nan" in tok:
        return float("nan")
    if "inf" in tok:
        return float("-inf") if tok.startswith("-") else float("inf")
    return float.fromhex(tok)


def same_bits(a, b):
    if a == b:
        return True
    return "nan" in a and "nan" in b


# ---------------------------------------------------------------------------------------------
# NumPy models
def np_unary(op, a, p, dt):
    T = G.NPT[dt]
    a = a.astype(T)
    p0, p1 = T(p[0]), T(p[1])
    zero = T(0)
    if op == 0:
        return np.sqrt(a)
    if op == 1:
        return np.ceil(a)
    if op == 2:
        return np.floor(a)
    if op == 3:
        return np.where(a > 0, a, zero)
    if op == 4:
        return np.clip(a, T(0), T(6))
    if op == 5:
        return np.clip(a, p0, p1)
    if op == 6:
        return np.where(np.abs(a) <= p0, zero, a)
    if op == 7:
        return np.where(a < -3, zero, np.where(a >= 3, a, (a * (a + T(3)) / T(6)).astype(T)))
    if op in (8, 9):
        return np.where(a >= 0, a, (p0 * a).astype(T))
    if op == 10:
        return np.where(a > p0, a - p0, np.where(a < -p0, a + p0, zero))
    if op == 11:
        return (a / (T(1) + np.abs(a))).astype(T)
    raise ValueError(op)


NP_BIN = {0: np.add, 1: np.subtract, 2: np.multiply, 3: np.divide}


def ulp_close(x, y, dt, ulps):
    if x == y:
        return True
    if math.isnan(x) and math.isnan(y):
        return True
    if math.isnan(x) or math.isnan(y) or math.isinf(x) or math.isinf(y):
        return False
    m = max(abs(x), abs(y), TINY[dt])
    return abs(x - y) <= ulps * EPS[dt] * m


# ---------------------------------------------------------------------------------------------
class Failures:
    """(form, op, ctx, class, symptom) -> first witness; collapsed to keys at the end"""

    def __init__(self):
        self.f = {}
        self.ran = {}    # (form, cls) -> set of (opname, ctxname)

    def ran_case(self, c):
        self.ran.setdefault((c.form, c.meta["cls"]), set()).add((c.opname, G.CONTEXTS[c.ctx][0]))

    def add(self, c, symptom, what, detail):
        k = (c.form, c.opname, G.CONTEXTS[c.ctx][0], c.meta["cls"], symptom)
        if k not in self.f:
            self.f[k] = (what, detail)

    def keys(self):
        """collapse over contexts (shared evaluator) and then over ops when every exercised one fails the same way"""
        groups = {}
        for (form, op, ctx, cls, sym), w in sorted(self.f.items()):
            groups.setdefault((form, cls, sym), {})[(op, ctx)] = w
        out = []
        for (form, cls, sym), fails in sorted(groups.items()):
            ran = self.ran.get((form, cls), set())
            ops_ran = sorted({o for o, _ in ran})
            by_op = {}
            for (op, ctx), w in fails.items():
                by_op.setdefault(op, {})[ctx] = w
            per_op = {}
            for op, d in by_op.items():
                ctx_ran = {c for o, c in ran if o == op}
                if ctx_ran and set(d) == ctx_ran and len(ctx_ran) > 1:
                    per_op[op] = ("any_ctx", d[sorted(d)[0]], sorted(d))
                else:
                    per_op[op] = None
            if len(ops_ran) > 1 and set(per_op) == set(ops_ran) and all(v is not None for v in per_op.values()):
                w = per_op[sorted(per_op)[0]]
                out.append(("%s:any_op:any_ctx:%s:%s" % (form, cls, sym), w[1], dict(ops=sorted(per_op), contexts=w[2])))
                continue
            for op, d in sorted(by_op.items()):
                if per_op[op] is not None:
                    out.append(("%s_%s:any_ctx:%s:%s" % (form, op, cls, sym), per_op[op][1], dict(contexts=per_op[op][2])))
                else:
                    for ctx, w in sorted(d.items()):
                        out.append(("%s_%s:%s:%s:%s" % (form, op, ctx, cls, sym), w, dict(contexts=[ctx])))
        return out


def describe(c):
    m = c.meta
    d = dict(form=c.form, op=c.opname, context=G.CONTEXTS[c.ctx][0], dtype=G.TAG[c.dt])
    for k in ("shape", "ls", "rs", "axis", "keepdims", "variant", "lay", "kind", "p"):
        if k in m:
            d[k] = m[k]
    return d


def short(c):
    m = c.meta
    s = "%s %s %s %s" % (c.form, c.opname, G.CONTEXTS[c.ctx][0], G.TAG[c.dt])
    if "shape" in m:
        s += " shape=%s" % (m["shape"],)
    if "ls" in m:
        s += " lhs=%s rhs=%s" % (m["ls"], m["rs"])
    if c.form == "reduce":
        s += " axis=%s keepdims=%s%s" % (m["axis"], bool(m["keepdims"]), ("", " dtype=given", " initial=%g" % m["initial"])[m["variant"]])
    if m.get("lay"):
        s += " column-major(bits=%d)" % m["lay"]
    if m.get("kind") == "ints":
        s += " integer-valued"
    return s


# ---------------------------------------------------------------------------------------------
def reference(c):
    """NumPy reference: (shape or None for a scalar, values float64/longdouble flat, per-element bound on |simd-scalar| or None=bitwise)"""
    m = c.meta
    dt = c.dt
    T = G.NPT[dt]
    if c.form == "unary":
        a = np.array(m["a"], dtype=np.float64).reshape(m["shape"])
        r = np_unary(c.op, a, m["p"], dt)
        return list(r.shape), r.astype(np.float64).ravel(), None
    if c.form == "binary":
        a = np.array(m["a"], dtype=T).reshape(m["ls"])
        b = np.array(m["b"], dtype=T).reshape(m["rs"])
        r = NP_BIN[c.op](a, b)
        return list(r.shape), r.astype(np.float64).ravel(), None
    if c.form == "outer":
        a = np.array(m["a"], dtype=T).reshape(m["ls"])
        b = np.array(m["b"], dtype=T).reshape(m["rs"])
        r = NP_BIN[c.op].outer(a, b)
        return list(r.shape), r.astype(np.float64).ravel(), None
    if c.form == "reduce" and dt == 32:
        a = np.array(m["a"], dtype=np.int64).reshape(m["shape"])
        r = np.asarray((np.add if c.op == 0 else np.multiply).reduce(a, axis=m["axis"], keepdims=bool(m["keepdims"])))
        if np.abs(r).max() >= 2 ** 31:
            raise ValueError("workload overflows int32")
        shape = None if (m["axis"] is None and not m["keepdims"]) else list(r.shape)
        return shape, r.astype(np.float64).ravel(), np.zeros(r.size)
    if c.form == "reduce":
        a = np.array(m["a"], dtype=np.longdouble).reshape(m["shape"])
        axis = m["axis"]
        kd = bool(m["keepdims"])
        ini = np.longdouble(m["initial"]) if m["variant"] == 2 else None
        nterm = (a.size if axis is None else a.shape[axis]) + (1 if ini is not None else 0)
        if c.op == 0:
            r = np.add.reduce(a, axis=axis, keepdims=kd) + (ini if ini is not None else 0)
            mag = np.add.reduce(np.abs(a), axis=axis, keepdims=kd) + (abs(ini) if ini is not None else 0)
        else:
            r = np.multiply.reduce(a, axis=axis, keepdims=kd) * (ini if ini is not None else 1)
            mag = np.abs(r)
        bound = (nterm * EPS[dt] * 1.01) * np.asarray(mag, dtype=np.longdouble)
        r = np.asarray(r)
        if axis is None and not kd:
            return None, np.array([r], dtype=np.longdouble).ravel(), np.array([bound], dtype=np.longdouble).ravel()
        return list(r.shape), r.ravel(), np.asarray(bound).ravel()
    if c.form == "matmul":
        a = np.array(m["a"], dtype=np.longdouble).reshape(m["ls"])
        b = np.array(m["b"], dtype=np.longdouble).reshape(m["rs"])
        r = a @ b
        mag = np.abs(a) @ np.abs(b)
        K = m["ls"][-1]
        bound = ((K + 2) * EPS[dt] * 1.01) * mag
        return list(r.shape), r.ravel(), bound.ravel()
    raise ValueError(c.form)


def check_case(ctx, F, c, toks, stats):
    rec = Rec(toks)
    if toks and toks[0] in ("UNSUP", "ERR", "EXC"):
        raise ValueError("harness refused the case: %s" % " ".join(toks[:6]))
    rec.expect("SC")
    sc = rec.array()
    rec.expect("SI")
    si = rec.array()
    rec.expect("OK")
    ok = int(rec.s())
    det = dict(case=describe(c), line=c.line[:1500])
    if sc is None or si is None:
        raise ValueError("evaluation returned Nothing: %s" % " ".join(toks[:8]))
    ref_shape, ref, bound = reference(c)
    stats["elements"] += len(sc["raw"])
    if ok == 0:
        stats["evaluator_returned_false"] += 1
    # ---- shape
    if (si["shape"] or None) != (sc["shape"] or None) or len(si["raw"]) != len(sc["raw"]):
        F.add(c, "shape", "%s: SIMD result has shape %s, scalar evaluator %s (NumPy %s)" % (short(c), si["shape"], sc["shape"], ref_shape), det)
        return
    if (sc["shape"] or None) != (ref_shape or None):
        F.add(c, "numpy_shape", "%s: both evaluators return shape %s, NumPy %s" % (short(c), sc["shape"], ref_shape), det)
        return
    if len(ref) != len(sc["raw"]):
        raise ValueError("reference has %d elements, record %d" % (len(ref), len(sc["raw"])))
    scv = [fval(t) for t in sc["raw"]]
    siv = [fval(t) for t in si["raw"]]
    # ---- SIMD vs scalar
    bad = None
    for i, (a, b) in enumerate(zip(sc["raw"], si["raw"])):
        if same_bits(a, b):
            continue
        if bound is not None and c.meta.get("kind") != "ints":
            if abs(scv[i] - siv[i]) <= float(bound[i]):
                continue
        bad = i
        break
    if ok == 0:
        F.add(c, "skipped", "%s: the SIMD evaluator returned false (unsupported) and array::fn returned the default-initialised result "
              "%s...; scalar evaluator %s..." % (short(c), si["raw"][:4], sc["raw"][:4]), det)
        return
    if bad is not None:
        i = bad
        r = float(ref[i])
        tol = 8 * EPS[c.dt] * max(abs(r), TINY[c.dt]) + (float(bound[i]) if bound is not None else 0.0)
        who = []
        if abs(scv[i] - r) <= tol:
            who.append("scalar")
        if abs(siv[i] - r) <= tol:
            who.append("SIMD")
        allzero = all(v == 0.0 for v in siv) and any(v != 0.0 for v in scv)
        lim = "bitwise" if bound is None else ("exact (integer-valued data)" if c.meta.get("kind") == "ints" else "bound %.3g" % float(bound[i]))
        F.add(c, "value", "%s: element %d SIMD=%s (%.9g) scalar=%s (%.9g) NumPy=%.9g [%s]; NumPy agrees with: %s%s" % (
            short(c), i, si["raw"][i], siv[i], sc["raw"][i], scv[i], r, lim, "/".join(who) or "neither",
            "; SIMD result is all zeros" if allzero else ""), det)
        return
    # ---- both agree: tie-breaker against NumPy
    for i in range(len(scv)):
        r = float(ref[i])
        if bound is None:
            good = ulp_close(scv[i], r, c.dt, 4)
        else:
            good = abs(scv[i] - r) <= 8 * EPS[c.dt] * max(abs(r), TINY[c.dt]) + float(bound[i])
        if not good and math.isinf(scv[i]) and c.dt in (4, 8) and abs(r) >= 0.99 * float(np.finfo(G.NPT[c.dt]).max):
            good = True     # overflow of the element type, the reference is computed in longdouble
        if not good:
            F.add(c, "numpy", "%s: element %d scalar=SIMD=%.9g but NumPy=%.9g" % (short(c), i, scv[i], r), det)
            return


def crash_class(kind):
    """symptom class of a process death: independent of the access width / sanitizer wording"""
    if kind.startswith("asan:") or kind.startswith("signal:SIGSEGV") or kind.startswith("signal:SIGBUS"):
        return "memory"
    if kind.startswith("ubsan:"):
        return "ubsan"
    if kind.startswith("lsan"):
        return "leak"
    if kind in ("assert", "glibcxx-assert"):
        return kind
    return kind.split(":")[0]


def top_frames(err):
    """library frames of a sanitizer / assert report (for the one-line description)"""
    import re
    fr = []
    for ln in err.splitlines():
        m = re.search(r"(include/nmtools/[\w/.]+:\d+)", ln)
        if m and m.group(1) not in fr:
            fr.append(m.group(1))
    return (" at " + " <- ".join(fr[:3])) if fr else ""


def run(ctx):
    quick = ctx.tier == "quick"
    ctxs = G.QUICK_CTX if quick else G.ALL_CTX
    groups = _groups()
    targets = _targets(ctx.tier, groups)
    plan = G.plan(ctx.tier, groups)
    res = B.build(targets)
    bins = {}
    notbuilt = []
    for t in res:
        if t.error:
            notbuilt.append((t.name, t.error[-1200:]))
        else:
            bins[t.name] = t.binary
    if notbuilt:
        for n, e in notbuilt[:3]:
            ctx.inconc("harness %s does not build: %s" % (n, e.replace("\n", " | ")[-600:]))
        return
    D = G.Data(ctx.rng)
    F = Failures()
    hacc = HookAcc()
    stats = dict(elements=0, evaluator_returned_false=0)
    per = {}
    ncrash = 0
    crash_kinds = {}
    env_fast = {"ASAN_OPTIONS": R.ENV_SAN["ASAN_OPTIONS"] + ":symbolize=0", "UBSAN_OPTIONS": "print_stacktrace=0:halt_on_error=1"}
    dropped = {}
    tim = dict(run=0.0, gen=0.0, oracle=0.0, rerun=0.0)
    for cid in sorted({c for c, _ in plan}):
        cname = G.CONTEXTS[cid][0]
        for g in groups:
            if (cid, g) not in plan:
                continue
            cases = []
            t0_ = time.time()
            for gen in G.GEN[g]:
                cases += gen(cid, ctx.tier, D)
            tim["gen"] += time.time() - t0_
            binary = bins["c12_%s_%s" % (g, cname)]
            per["%s/%s" % (cname, g)] = len(cases)
            # phases: 2 smallest cases of every (form, op, dtype, class), then 8 more spread over the class, then the rest;
            # a class with >= 3 process deaths so far is not expanded further (bounds the number of restarts)
            probe = {}
            for i, c in enumerate(cases):
                probe.setdefault((c.form, c.opname, c.dt, c.meta["cls"]), []).append(i)
            kof = {}
            for k, idx in probe.items():
                for i in idx:
                    kof[i] = k
            phase_of = {}
            for k, idx in probe.items():
                rest = idx[2:]
                step = max(1, len(rest) // 8)
                second = set(rest[::step][:8])
                for n_, i in enumerate(idx):
                    phase_of[i] = 1 if n_ < 2 else (2 if i in second else 3)
            results, crashes, touts = {}, [], []
            dead = set()
            for phase in (1, 2, 3):
                deaths = {}
                for cr in crashes:
                    if cr.case_id.isdigit():
                        k = kof[int(cr.case_id)]
                        deaths[k] = deaths.get(k, 0) + 1
                dead = {k for k, n_ in deaths.items() if n_ >= 3 or n_ >= len([i for i in probe[k] if phase_of[i] < phase])}
                sel = [i for i in range(len(cases)) if phase_of[i] == phase and kof[i] not in dead]
                if phase == 3:
                    for k in dead:
                        n_ = len([i for i in probe[k] if phase_of[i] == 3])
                        if n_:
                            dropped["%s/%s/%s/%s/%s" % (cname, k[0], k[1], G.TAG[k[2]], k[3])] = n_
                if not sel:
                    continue
                lines = [(str(i), "%d %s" % (i, cases[i].line)) for i in sel]
                t0_ = time.time()
                r_, c_, t_ = R.run_cases(binary, lines, env_extra=env_fast)
                tim["run"] += time.time() - t0_
                results.update(r_)
                crashes += c_
                touts += t_
            skipped_idx = {i for i in range(len(cases)) if str(i) not in results}
            # symbolised witness: re-run the first crashing case of every (op, class, kind) alone
            rerun = {}
            for cr in crashes:
                ncrash += 1
                crash_kinds[cr.kind()] = crash_kinds.get(cr.kind(), 0) + 1
                if cr.case_id.isdigit():
                    c = cases[int(cr.case_id)]
                    rerun.setdefault((c.opname, c.meta["cls"], crash_class(cr.kind())), (c, cr))
                else:
                    ctx.violation("%s:%s:outside_case:crash:%s" % (g, cname, crash_class(cr.kind())), "runner died outside a case: %s" % cr.kind(), dict(stderr=cr.stderr[-3000:]))
            t0_ = time.time()
            for (opn, cls, kind), (c, cr) in sorted(rerun.items())[:40]:
                _, c2, _ = R.run_cases(binary, [("0", "0 " + c.line)], nbatch=1)
                err = c2[0].stderr if c2 else cr.stderr
                F.ran_case(c)
                F.add(c, "crash:" + kind, "%s: process died: %s%s" % (short(c), cr.kind(), top_frames(err)),
                      dict(case=describe(c), line=c.line[:1500], stderr=err[-3500:]))
            tim["rerun"] += time.time() - t0_
            for cr in crashes:
                if cr.case_id.isdigit():
                    c = cases[int(cr.case_id)]
                    F.ran_case(c)
                    F.add(c, "crash:" + crash_class(cr.kind()), "%s: process died: %s" % (short(c), cr.kind()), dict(case=describe(c), line=c.line[:1500]))
            for t in touts:
                ctx.inconc("timeout in %s/%s case %s" % (cname, g, t))
            crashed = {cr.case_id for cr in crashes}
            missing = 0
            t0_ = time.time()
            for i, c in enumerate(cases):
                r = results.get(str(i))
                if r is None:
                    if str(i) not in crashed and kof[i] not in dead:
                        missing += 1
                    continue
                toks, hooks = split_hooks(r)
                ctx.ev()
                F.ran_case(c)
                for (s, v, f0, f1) in hacc.add(hooks):
                    F.add(c, "hook:" + SITE_NAMES.get(s, str(s)), "%s: hook %s reported %d outside bound %d" % (short(c), SITE_NAMES.get(s, s), f0, f1),
                          dict(case=describe(c), line=c.line[:1500]))
                try:
                    check_case(ctx, F, c, toks, stats)
                except (ValueError, IndexError) as e:
                    F.add(c, "malformed", "%s: unusable record: %s" % (short(c), e), dict(case=describe(c), line=c.line[:1500], record=" ".join(toks[:60])))
                shp = c.meta.get("shape") or (c.meta.get("ls"), c.meta.get("rs"))
                ctx.seen((c.form, c.opname, cname, c.dt, c.meta["cls"], str(shp), c.meta.get("axis"), c.meta.get("keepdims")))
                if len(ctx.samples) < 6 and i % 997 == 3:
                    ctx.sample(dict(case=short(c), record=" ".join(toks[:24])))
            tim["oracle"] += time.time() - t0_
            if missing:
                ctx.inconc("%d cases of %s/%s produced no record" % (missing, cname, g))
    for key, (what, detail), extra in F.keys():
        d = dict(detail)
        d.update(extra)
        ctx.violation(key, what, d)
    ctx.rule = ("for each context in %s and float/double: unary x12 ops, binary x4 (same shape 1-d every count 1..4*lanes+1, n-d, every 2-d broadcast pattern, "
                "rank-mismatched broadcast), outer x3, add/multiply.reduce (axis None, every axis, negative axes, keepdims on/off, dtype=/initial= given), "
                "matmul (M,K)x(K,N) for every K in 1..4*lanes+1; row- and column-major operands; seeded random non-zero data + integer-valued data. "
                "distinct = (form, op, context, dtype, argument class, shapes, axis, keepdims) tuples executed" % ([G.CONTEXTS[c][0] for c in ctxs],))
    ctx.exhaustive = False
    ctx.set("contexts", [G.CONTEXTS[c][0] for c in ctxs])
    ctx.set("groups", groups)
    ctx.set("cases_per_binary", per)
    ctx.set("elements_compared", stats["elements"])
    ctx.set("simd_evaluator_returned_false", stats["evaluator_returned_false"])
    ctx.set("hook_events", hacc.summary())
    ctx.set("crashes_contained", ncrash)
    ctx.set("crash_kinds", crash_kinds)
    ctx.set("seconds", {k: round(v, 1) for k, v in tim.items()})
    ctx.set("classes_not_expanded_after_probe_crash", dropped)
    ctx.set("not_compilable_excluded", ["simde_AVX512 x hardshrink/hardswish/softshrink (simde_knot_mask*/simde_kxor_mask* undeclared by the installed simde)",
                                        "simde_AVX512 x double x matmul (simd_op_t::fmadd passes __m512d to simde_mm512_fmadd_ps)",
                                        "reciprocal: included by simd/ufunc.hpp but has no ufunc_simd_t specialisation in any context",
                                        "divide.reduce / divide.outer: not provided by the library; subtract.reduce: not a re-associable reduction, untested upstream"])
    ctx.set("supported_reading", "supported = every op with a ufunc_simd_t specialisation that compiles for the context/dtype, called on ndarray operands; "
            "eval_unary/eval_outer/eval_reduction/matmul accept every shape; eval_binary declares only same-shape and 2-d x 2-d pairs valid and returns false otherwise - "
            "array::fn discards that bool, so such an accepted call is counted as a violation (symptom 'skipped')")
    if hacc.events.get(0, 0) == 0:
        ctx.inconc("ndarray bounds hooks never fired")
