"""C15: invalid arguments are reported as 'Nothing', never as garbage or a crash."""
import importlib
import itertools

import numpy as np

from .. import viewrun as V
from ..util import fmt_vec, HookAcc, Tok, all_shapes
from . import c03 as C03

CLAIM = dict(
    technique="runtime monitoring: sanitizer-instrumented execution of the checked operations over the invalid part of their small-scope argument space, NumPy raise/no-raise as the oracle for has_value; failing stages inside 2-3 stage pipelines fed onward without unwrapping",
    text="For every operation whose result type for run-time arguments is an optional (recorded by the harness as M=1; operations that do not validate a run-time argument position are listed in the evidence as the unchecked inventory and are only driven with valid arguments), the invalid part of the argument space (element-count mismatches, several -1, zero/negative extents, axes in [-dim-2, dim+1] incl. duplicates, operand-shape mismatches, ...) is executed under ASan/UBSan/libstdc++ assertions; has_value must equal 'NumPy does not raise', and no trap or sanitizer report may occur. Pipelines in which stage 1, 2 or 3 fails are built by passing the optional view directly to the next view and to every evaluation route: once empty always empty, never dereferenced (an empty-optional dereference traps under _GLIBCXX_ASSERTIONS). Held-on-observed.",
    note="Trusted: NumPy's argument validation as the reference for validity. Which positions count as 'checked' is decided mechanically from the result type (DESIGN.md 1.6).",
    ref="DESIGN.md 4/C15")
HARNESS = ["c15_pipes"]
TARGETS_QUICK = [("c15_pipes", "asan")]


# ------------------------------------------------------------------ part A: invalid arguments of single operations
def gen_c03_invalid(rng, tier):
    """cases for the c03 harness ops, each labelled with the reason it is (possibly) invalid"""
    quick = tier == "quick"
    cases = []

    def add(op, args, reason, **m):
        m.update(op=op, args=args, reason=reason)
        cases.append(m)

    shapes = [s for s in all_shapes(3, 3, mindim=1)] if quick else [s for s in all_shapes(4, 3, mindim=1)]
    for s in shapes:
        n = int(np.prod(s))
        d = len(s)
        # reshape: shape-valued argument with entries -2..4, length 1..3
        for L in (1, 2, 3):
            cands = list(itertools.product(range(-2, 5), repeat=L))
            if len(cands) > (12 if quick else 60):
                cands = rng.sample(cands, 12 if quick else 60)
            for ns in cands:
                ns = list(ns)
                if ns.count(-1) > 1:
                    reason = "several_minus_one"
                elif any(x < -1 for x in ns):
                    reason = "negative_extent"
                elif 0 in ns:
                    reason = "zero_extent"
                elif -1 in ns:
                    p = int(np.prod([x for x in ns if x != -1]))
                    reason = "infer_ok" if n % p == 0 else "infer_not_divisible"
                else:
                    reason = "count_ok" if int(np.prod(ns)) == n else "count_mismatch"
                add("reshape", "%s %s" % (fmt_vec(s), fmt_vec(ns)), reason, shape=s, newshape=ns)
        # axes in [-dim-2, dim+1]
        rngax = list(range(-d - 2, d + 2))
        for ax in rngax:
            r = "axis_ok" if -d <= ax < d else "axis_out_of_range"
            add("flip1", "%s %d" % (fmt_vec(s), ax), r, shape=s, axes=ax)
            r2 = "axis_ok" if -(d + 1) <= ax <= d else "axis_out_of_range"
            add("expand_dims1", "%s %d" % (fmt_vec(s), ax), r2, shape=s, axes=ax)
            for bx in (rng.sample(rngax, 3) if quick else rngax):
                ok = (-d <= ax < d) and (-d <= bx < d)
                add("swapaxes", "%s %d %d" % (fmt_vec(s), ax, bx), "axis_ok" if ok else "axis_out_of_range", shape=s, a1=ax, a2=bx)
                add("moveaxis1", "%s %d %d" % (fmt_vec(s), ax, bx), "axis_ok" if ok else "axis_out_of_range", shape=s, src=ax, dst=bx)
        # transpose axes: wrong length, out of range, duplicates
        for L in range(max(1, d - 1), d + 2):
            cands = list(itertools.product(range(-1, d + 1), repeat=L))
            if len(cands) > (10 if quick else 40):
                cands = rng.sample(cands, 10 if quick else 40)
            for ax in cands:
                ax = list(ax)
                norm = [a + d if a < 0 else a for a in ax]
                if L != d:
                    r = "axes_wrong_length"
                elif any(not (0 <= a < d) for a in norm):
                    r = "axis_out_of_range"
                elif len(set(norm)) != d:
                    r = "axis_duplicate"
                else:
                    r = "axes_ok"
                add("transpose", "%s %s" % (fmt_vec(s), fmt_vec(ax)), r, shape=s, axes=ax)
        # expand_dims / flip / moveaxis with axis lists incl. duplicates and out-of-range entries
        for L in (2,):
            cands = list(itertools.product(range(-d - 2, d + 3), repeat=L))
            cands = rng.sample(cands, min(len(cands), 8 if quick else 30))
            for ax in cands:
                ax = list(ax)
                nd = d + L
                norm = [a + nd if a < 0 else a for a in ax]
                if any(not (0 <= a < nd) for a in norm):
                    r = "axis_out_of_range"
                elif len(set(norm)) != L:
                    r = "axis_duplicate"
                else:
                    r = "axes_ok"
                add("expand_dims", "%s %s" % (fmt_vec(s), fmt_vec(ax)), r, shape=s, axes=ax)
                norm = [a + d if a < 0 else a for a in ax]
                if any(not (0 <= a < d) for a in norm):
                    r = "axis_out_of_range"
                elif len(set(norm)) != L:
                    r = "axis_duplicate"
                else:
                    r = "axes_ok"
                add("flip", "%s %s" % (fmt_vec(s), fmt_vec(ax)), r, shape=s, axes=ax)
                bx = [rng.randrange(-d - 1, d + 1) for _ in range(L)]
                normb = [a + d if a < 0 else a for a in bx]
                if any(not (0 <= a < d) for a in norm + normb):
                    r = "axis_out_of_range"
                elif len(set(norm)) != L or len(set(normb)) != L:
                    r = "axis_duplicate"
                else:
                    r = "axes_ok"
                add("moveaxis", "%s %s %s" % (fmt_vec(s), fmt_vec(ax), fmt_vec(bx)), r, shape=s, src=ax, dst=bx)
    return cases


def reshape_valid(n, ns):
    if len(ns) == 0 or ns.count(-1) > 1 or any(x == 0 or x < -1 for x in ns):
        return False
    p = 1
    for x in ns:
        if x != -1:
            p *= x
    return (n % p == 0) if -1 in ns else (p == n)


def numpy_accepts(mod, m):
    if m.get("op") == "reshape" and not reshape_valid(int(np.prod(m["shape"])), m["newshape"]):
        # NumPy treats every negative extent as "infer"; the property lists negative extents as invalid
        return False, None
    try:
        e = mod.expected(m)
        return e is not None, e
    except Exception:
        return False, None


INVALID_SOURCES = [("c03", C03, gen_c03_invalid)]


def extra_sources():
    """value modules that ship their own invalid-argument generator: gen_invalid(rng, tier)"""
    out = []
    from ..integrated import VALUE
    for n in [v for v in VALUE if v != "c03"]:
        try:
            mod = importlib.import_module("vf.checks." + n)
        except Exception:
            continue
        if getattr(mod, "CLAIM", None) and hasattr(mod, "gen_invalid") and hasattr(mod, "expected"):
            out.append((n, mod, mod.gen_invalid))
    return out


# ------------------------------------------------------------------ part B: failing stages inside pipelines
def lab(shape, base=100, step=1):
    n = int(np.prod(shape))
    return (base + step * np.arange(n)).reshape(shape).astype(np.int32)


def rand_newshape(rng, n):
    """a reshape target that is valid or invalid"""
    r = rng.random()
    if r < 0.5:
        f = []
        rem = n
        for _ in range(rng.randint(1, 3) - 1):
            ds = [d for d in range(1, rem + 1) if rem % d == 0]
            d = rng.choice(ds)
            f.append(d)
            rem //= d
        f.append(rem)
        rng.shuffle(f)
        if rng.random() < 0.3:
            f[rng.randrange(len(f))] = -1
        return f
    return [rng.randint(-2, 4) for _ in range(rng.randint(1, 3))]


def np_reshape(a, ns):
    if not reshape_valid(a.size, list(ns)):
        raise ValueError("invalid reshape")
    return a.reshape(ns)


def try_np(f):
    try:
        return f()
    except Exception:
        return None


def gen_fail_pipes(rng, tier):
    n_per = 150 if tier == "quick" else 3000
    cases = []

    def add(op, args, stages, **m):
        m.update(op=op, args=args, stages=stages)
        cases.append(m)

    for _ in range(n_per):
        s = [rng.randint(1, 3) for _ in range(rng.randint(1, 3))]
        n = int(np.prod(s))
        a = lab(s)
        ns = rand_newshape(rng, n)
        r1 = try_np(lambda: np_reshape(a, ns))
        k = len(ns) if r1 is None else r1.ndim
        # transpose(reshape): keep the (unchecked) transpose axes valid
        ax = list(rng.sample(range(k), k))
        r2 = try_np(lambda: np.transpose(r1, ax)) if r1 is not None else None
        add("q_t_reshape", "%s %s %s" % (fmt_vec(s), fmt_vec(ns), fmt_vec(ax)), [r1, r2])
        sb = [rng.randint(1, 3) for _ in range(rng.randint(1, 3))]
        b = lab(sb, 1000, 7)
        r2 = try_np(lambda: r1 + b) if r1 is not None else None
        add("q_add_reshape", "%s %s %s" % (fmt_vec(s), fmt_vec(ns), fmt_vec(sb)), [r1, r2])
        axis = rng.randrange(-k, k)
        r2 = try_np(lambda: r1.sum(axis=axis)) if r1 is not None else None
        add("q_sum_reshape", "%s %s %d" % (fmt_vec(s), fmt_vec(ns), axis), [r1, r2])
        ns2 = rand_newshape(rng, n)
        r2 = try_np(lambda: np_reshape(r1, ns2)) if r1 is not None else None
        add("q_reshape_reshape", "%s %s %s" % (fmt_vec(s), fmt_vec(ns), fmt_vec(ns2)), [r1, r2])
        sa = [rng.randint(1, 3) for _ in range(rng.randint(1, 3))]
        sc = [rng.randint(1, 3) for _ in range(rng.randint(1, 3))]
        x1 = try_np(lambda: lab(sa, 1) + lab(sb, 2, 3))
        x2 = try_np(lambda: x1 * lab(sc, 5, 2)) if x1 is not None else None
        add("q_mul_add_bcast", "%s %s %s" % (fmt_vec(sa), fmt_vec(sb), fmt_vec(sc)), [x1, x2])
        tgt = [rng.randint(1, 3) for _ in range(rng.randint(1, 3))]
        r2 = try_np(lambda: np.broadcast_to(r1, tgt)) if r1 is not None else None
        ax = list(rng.sample(range(len(tgt)), len(tgt)))
        r3 = try_np(lambda: np.transpose(r2, ax)) if r2 is not None else None
        add("q3_t_bcast_reshape", "%s %s %s %s" % (fmt_vec(s), fmt_vec(ns), fmt_vec(tgt), fmt_vec(ax)), [r1, r2, r3])
        r2 = try_np(lambda: r1 + b) if r1 is not None else None
        kk = r2.ndim if r2 is not None else max(k, len(sb))
        axis = rng.randrange(-kk, kk)
        r3 = try_np(lambda: r2.sum(axis=axis)) if r2 is not None else None
        add("q3_sum_add_reshape", "%s %s %s %d" % (fmt_vec(s), fmt_vec(ns), fmt_vec(sb), axis), [r1, r2, r3])
    return cases


def parse_qpipe(toks):
    t = Tok(toks)
    if t.peek() in ("ERR", "EXC"):
        return {"error": " ".join(toks)}
    st = []
    while t.peek() in ("S1", "S2", "S3"):
        t.s()
        st.append(t.i())
    rec = V.parse_view_record(toks[t.p:])
    rec["stages"] = st
    return rec


def run(ctx):
    acc = HookAcc()
    ncrash = 0
    unchecked = {}
    checked = {}
    reasons_seen = {}
    # ---- part A
    for name, mod, gen in INVALID_SOURCES + extra_sources():
        rng = ctx.rng.__class__(ctx.seed * 15485863 + int(name[1:]))
        cases = gen(rng, ctx.tier)
        res = V.run_module_cases(mod.HARNESS, cases, "asan", parse=getattr(mod, "PARSE", V.parse_view_record))
        # which ops return an optional at all (M flag) - decided from the records of this run
        opM = {}
        for cr in res:
            if cr.rec is not None and "M" in cr.rec:
                opM.setdefault(cr.m["op"], set()).add(cr.rec["M"])
        for cr in res:
            op = cr.m["op"]
            reason = cr.m.get("reason", "?")
            ok, exp = numpy_accepts(mod, cr.m)
            det = dict(case={k: v for k, v in cr.m.items() if k not in ("args",)}, line=cr.line, numpy_accepts=ok)
            is_checked = 1 in opM.get(op, set())
            if not is_checked:
                # unchecked operation: invalid arguments are a broken precondition, nothing is demanded of them;
                # valid arguments still must not crash
                unchecked.setdefault(op, {"invalid_cases_ignored": 0, "valid_cases": 0})
                if ok:
                    unchecked[op]["valid_cases"] += 1
                    if cr.crash is not None:
                        ctx.violation("%s:%s:crash:%s" % (op, reason, cr.crash.kind()), "%s %s (valid arguments) died: %s" % (op, det["case"], cr.crash.kind()), dict(det, stderr=cr.crash.stderr[-2500:]))
                else:
                    unchecked[op]["invalid_cases_ignored"] += 1
                continue
            checked.setdefault(op, {"valid": 0, "invalid": 0})
            checked[op]["valid" if ok else "invalid"] += 1
            if cr.crash is not None:
                ncrash += 1
                ctx.violation("%s:%s:crash:%s" % (op, reason, cr.crash.kind()), "%s %s died instead of reporting Nothing: %s" % (op, det["case"], cr.crash.kind()), dict(det, stderr=cr.crash.stderr[-2500:]))
                continue
            if cr.timeout:
                ctx.inconc("timeout in %s" % cr.line[:200])
                continue
            if cr.rec is None or "error" in cr.rec:
                continue
            ctx.ev()
            hv = cr.rec["V"] is not None
            if hv and not ok:
                ctx.violation("%s:%s:accepted_invalid" % (op, reason), "%s %s returns a value (shape %s) where NumPy raises" % (op, det["case"], cr.rec["V"].get("shape")), det)
            elif not hv and ok:
                if not (op == "squeeze"):
                    ctx.violation("%s:%s:rejected_valid" % (op, reason), "%s %s returns Nothing where NumPy returns shape %s" % (op, det["case"], list(exp.shape)), det)
            # Nothing must stay Nothing through evaluation
            if not hv:
                for route in ("E", "C", "O"):
                    if cr.rec.get(route) is not None:
                        ctx.violation("%s:%s:value_from_nothing" % (op, route), "%s %s: view is Nothing but evaluation route %s produced a value" % (op, det["case"], route), det)
            acc.add(cr.hooks)
            if not ok:
                ctx.seen((op, reason, cr.m["args"]))
                reasons_seen.setdefault(op, set()).add(reason)
                if len(ctx.samples) < 4 and ctx.rng.random() < 0.01:
                    ctx.sample(dict(op=op, args=cr.m["args"], reason=reason, numpy_raises=True, has_value=hv))
    # ---- part B
    pc = gen_fail_pipes(ctx.rng, ctx.tier)
    res = V.run_module_cases(HARNESS, pc, "asan", parse=parse_qpipe)
    fail_at = {}
    for cr in res:
        op = cr.m["op"]
        stages = cr.m["stages"]
        first_fail = next((k for k, r in enumerate(stages) if r is None), None)
        det = dict(case=dict(op=op, args=cr.m["args"], numpy_first_failing_stage=first_fail), line=cr.line)
        cls = "fail_at_%s" % (first_fail + 1 if first_fail is not None else "none")
        if cr.crash is not None:
            ncrash += 1
            ctx.violation("%s:%s:crash:%s" % (op, cls, cr.crash.kind()), "pipeline %s %s died: %s" % (op, cr.m["args"], cr.crash.kind()), dict(det, stderr=cr.crash.stderr[-2500:]))
            continue
        if cr.timeout:
            ctx.inconc("timeout in %s" % cr.line[:200])
            continue
        if cr.rec is None or "error" in cr.rec:
            continue
        ctx.ev()
        fail_at[cls] = fail_at.get(cls, 0) + 1
        st = cr.rec["stages"]
        # once empty, always empty
        for k in range(1, len(st)):
            if st[k - 1] == 0 and st[k] != 0:
                ctx.violation("%s:revived" % op, "pipeline %s %s: stage %d is empty but stage %d has a value" % (op, cr.m["args"], k, k + 1), det)
        hv = cr.rec["V"] is not None
        final = stages[-1]
        if final is None and hv:
            ctx.violation("%s:%s:accepted_invalid" % (op, cls), "pipeline %s %s yields a value (shape %s) although NumPy raises at stage %d" % (op, cr.m["args"], cr.rec["V"].get("shape"), first_fail + 1), det)
        elif final is not None and not hv:
            ctx.violation("%s:rejected_valid" % op, "pipeline %s %s yields Nothing although every stage is valid in NumPy" % (op, cr.m["args"]), det)
        elif final is not None:
            why = V.compare_np(cr.rec["V"], final)
            if why:
                ctx.violation("%s:value" % op, "pipeline %s %s: %s" % (op, cr.m["args"], why), det)
        if not hv:
            for route in ("E", "C", "O"):
                if cr.rec.get(route) is not None:
                    ctx.violation("%s:%s:value_from_nothing" % (op, route), "pipeline %s %s: view is Nothing but route %s produced a value" % (op, cr.m["args"], route), det)
        ctx.seen((op, cr.m["args"]))
        if len(ctx.samples) < 8 and first_fail is not None and ctx.rng.random() < 0.02:
            ctx.sample(dict(pipeline=op, args=cr.m["args"], numpy_first_failing_stage=first_fail + 1, stage_has_value=st, final_has_value=hv))
    ctx.rule = ("part A: invalid + valid argument space (labelled by reason) of the checked ops; has_value == (NumPy accepts); "
                "part B: %d pipeline cases in which stage 1/2/3 may fail, optional passed on unwrapped. distinct = (op, reason, arguments) of invalid cases + pipeline cases" % len(pc))
    ctx.set("checked_ops", checked)
    ctx.set("unchecked_inventory", unchecked)
    ctx.set("invalid_reasons_covered", {k: sorted(v) for k, v in reasons_seen.items()})
    ctx.set("pipeline_failure_positions", fail_at)
    ctx.set("crashes_contained", ncrash)
