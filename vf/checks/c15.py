"""C15: invalid arguments are reported as 'Nothing', never as garbage or a crash."""
import importlib
import itertools
import re

import numpy as np

from .. import viewrun as V
from .. import c15_invalid as X
from ..util import fmt_vec, HookAcc, Tok, all_shapes
from . import c03 as C03

CLAIM = dict(
    technique="runtime monitoring: sanitizer-instrumented execution of the checked operations over the invalid part of their small-scope argument space (the existing harness ops of C03, C04, C07, C08, C16 driven with labelled invalid and valid arguments), NumPy raise/no-raise as the oracle for has_value; failing stages inside 2-3 stage pipelines fed onward without unwrapping",
    text="For every operation whose result type for run-time arguments is an optional (recorded by the harness as M=1; operations that do not validate a run-time argument position are listed in the evidence as the unchecked inventory and are only required not to crash on valid arguments), the invalid part of the argument space is executed under ASan/UBSan/libstdc++ assertions, each case labelled with the reason it is invalid: reshape (element-count mismatches, several -1, zero/negative extents), axes in [-dim-2, dim+1] incl. duplicates (flip/expand_dims/moveaxis/swapaxes/transpose; for moveaxis every in-range source list x destination list of 1..3 entries - exhaustive up to 2 entries, duplicates against every valid partner plus samples for 3 - so a repeated axis at any pair of positions of either list is exercised, roll, stack, diagonal, the reductions and accumulations of C08 incl. mean/var/stddev/vector_norm, tensordot, trace), operand shapes that do not broadcast (every binary/ternary ufunc of C07 over all incompatible shape pairs of dim 1..3 extents 1..3 for add, stratified samples for the others; where), mismatching operand shapes of concatenate/stack/hstack/vstack/dstack/column_stack, mismatching contraction extents and batch axes of matmul/matmulv2/dot/inner/vecdot/tensordot, pad/roll/tile/repeat/resize/sliding_window/expand list arguments of wrong length or with negative entries, shape-valued arguments of full/zeros/ones/eye with negative entries, plus a share of valid cases. has_value must equal 'NumPy does not raise' (explicit documented rules where NumPy and the property text differ: negative reshape extents, ONNX-style negative pad widths, one-element list broadcasting), and no trap, sanitizer report or escaping C++ exception may occur. Pipelines in which stage 1, 2 or 3 fails are built by passing the optional view directly to the next view and to every evaluation route: once empty always empty, never dereferenced (an empty-optional dereference traps under _GLIBCXX_ASSERTIONS). Held-on-observed.",
    note="Trusted: NumPy's argument validation (and the documented pad/resize/expand models of C04) as the reference for validity. Which operations count as 'checked' is decided mechanically from the result type (DESIGN.md 1.6); for a checked operation an argument kind the property text does not name and the operation does not validate is listed per (op, reason) in UNCHECKED_POSITIONS and reported in the evidence (unchecked_positions) instead of raising an alarm. Results with a zero extent are out of scope (extents >= 1).",
    ref="DESIGN.md 4/C15")
HARNESS = ["c15_pipes"]
TARGETS_QUICK = [("c15_pipes", "asan")]


# ------------------------------------------------------------------ part A: invalid arguments of single operations
def gen_c03_invalid(rng, tier):
    """cases for the c03 harness ops, each labelled with the reason it is (possibly) invalid"""
    quick = tier == "quick"
    cases = []

    def add(op, args, reason, **m):
        m.update(op=op, args=args, reason=reason)
        cases.append(m)

    shapes = [s for s in all_shapes(3, 3, mindim=1)] if quick else [s for s in all_shapes(4, 3, mindim=1)]
    for s in shapes:
        n = int(np.prod(s))
        d = len(s)
        # reshape: shape-valued argument with entries -2..4, length 1..3
        for L in (1, 2, 3):
            cands = list(itertools.product(range(-2, 5), repeat=L))
            if len(cands) > (12 if quick else 60):
                cands = rng.sample(cands, 12 if quick else 60)
            for ns in cands:
                ns = list(ns)
                if ns.count(-1) > 1:
                    reason = "several_minus_one"
                elif any(x < -1 for x in ns):
                    reason = "negative_extent"
                elif 0 in ns:
                    reason = "zero_extent"
                elif -1 in ns:
                    p = int(np.prod([x for x in ns if x != -1]))
                    reason = "infer_ok" if n % p == 0 else "infer_not_divisible"
                else:
                    reason = "count_ok" if int(np.prod(ns)) == n else "count_mismatch"
                add("reshape", "%s %s" % (fmt_vec(s), fmt_vec(ns)), reason, shape=s, newshape=ns)
        # axes in [-dim-2, dim+1]
        rngax = list(range(-d - 2, d + 2))
        for ax in rngax:
            r = "axis_ok" if -d <= ax < d else "axis_out_of_range"
            add("flip1", "%s %d" % (fmt_vec(s), ax), r, shape=s, axes=ax)
            r2 = "axis_ok" if -(d + 1) <= ax <= d else "axis_out_of_range"
            add("expand_dims1", "%s %d" % (fmt_vec(s), ax), r2, shape=s, axes=ax)
            for bx in (rng.sample(rngax, 3) if quick else rngax):
                ok = (-d <= ax < d) and (-d <= bx < d)
                add("swapaxes", "%s %d %d" % (fmt_vec(s), ax, bx), "axis_ok" if ok else "axis_out_of_range", shape=s, a1=ax, a2=bx)
                add("moveaxis1", "%s %d %d" % (fmt_vec(s), ax, bx), "axis_ok" if ok else "axis_out_of_range", shape=s, src=ax, dst=bx)
        # transpose axes: wrong length, out of range, duplicates
        for L in range(max(1, d - 1), d + 2):
            cands = list(itertools.product(range(-1, d + 1), repeat=L))
            if len(cands) > (10 if quick else 40):
                cands = rng.sample(cands, 10 if quick else 40)
            for ax in cands:
                ax = list(ax)
                norm = [a + d if a < 0 else a for a in ax]
                if L != d:
                    r = "axes_wrong_length"
                elif any(not (0 <= a < d) for a in norm):
                    r = "axis_out_of_range"
                elif len(set(norm)) != d:
                    r = "axis_duplicate"
                else:
                    r = "axes_ok"
                add("transpose", "%s %s" % (fmt_vec(s), fmt_vec(ax)), r, shape=s, axes=ax)
        # expand_dims / flip / moveaxis with axis lists incl. duplicates and out-of-range entries
        for L in (2,):
            cands = list(itertools.product(range(-d - 2, d + 3), repeat=L))
            cands = rng.sample(cands, min(len(cands), 8 if quick else 30))
            for ax in cands:
                ax = list(ax)
                nd = d + L
                norm = [a + nd if a < 0 else a for a in ax]
                if any(not (0 <= a < nd) for a in norm):
                    r = "axis_out_of_range"
                elif len(set(norm)) != L:
                    r = "axis_duplicate"
                else:
                    r = "axes_ok"
                add("expand_dims", "%s %s" % (fmt_vec(s), fmt_vec(ax)), r, shape=s, axes=ax)
                norm = [a + d if a < 0 else a for a in ax]
                if any(not (0 <= a < d) for a in norm):
                    r = "axis_out_of_range"
                elif len(set(norm)) != L:
                    r = "axis_duplicate"
                else:
                    r = "axes_ok"
                add("flip", "%s %s" % (fmt_vec(s), fmt_vec(ax)), r, shape=s, axes=ax)
                bx = [rng.randrange(-d - 1, d + 1) for _ in range(L)]
                normb = [a + d if a < 0 else a for a in bx]
                if any(not (0 <= a < d) for a in norm + normb):
                    r = "axis_out_of_range"
                elif len(set(norm)) != L or len(set(normb)) != L:
                    r = "axis_duplicate"
                else:
                    r = "axes_ok"
                add("moveaxis", "%s %s %s" % (fmt_vec(s), fmt_vec(ax), fmt_vec(bx)), r, shape=s, src=ax, dst=bx)
    # moveaxis / flip / expand_dims with axis LISTS of every length 1..dim (validity depends on the dimension only, so one source
    # shape per dimension): every in-range source list x every in-range destination list (duplicates in either list at any
    # pair of positions, after normalisation of negatives), exhaustively up to 3 entries; plus lists with one out-of-range entry.
    def mv_reason(d, ax, bx):
        na = [a + d if a < 0 else a for a in ax]
        nb = [a + d if a < 0 else a for a in bx]
        if any(not (0 <= a < d) for a in na + nb):
            return "axis_out_of_range"
        if len(set(na)) != len(na):
            return "axis_duplicate_source"
        if len(set(nb)) != len(nb):
            return "axis_duplicate_destination"
        return "axes_ok"
    for s in ([(2,), (2, 3), (2, 1, 3)] if quick else [(2,), (2, 3), (2, 1, 3), (1, 2, 2, 3)]):
        d = len(s)
        inr = list(range(-d, d))
        for L in range(1, min(d, 3) + 1):
            lists = [list(t) for t in itertools.product(inr, repeat=L)]
            distinct = [t for t in lists if len({a % d for a in t}) == L]
            dup = [t for t in lists if len({a % d for a in t}) != L]
            pairs = []
            if len(lists) ** 2 <= 1500 or not quick:
                pairs = [(a, b) for a in lists for b in lists]
                if len(pairs) > 60000:
                    pairs = rng.sample(pairs, 60000)
            else:
                # duplicates in exactly one of the lists against every / sampled valid partner, plus a sample of the rest
                for a in dup:
                    pairs += [(a, b) for b in rng.sample(distinct, min(len(distinct), 14))]
                    pairs += [(b, a) for b in rng.sample(distinct, min(len(distinct), 14))]
                pairs += [(rng.choice(lists), rng.choice(lists)) for _ in range(1500)]
                pairs += [(a, b) for a in rng.sample(distinct, min(len(distinct), 30)) for b in rng.sample(distinct, 20)]
            for ax, bx in pairs:
                add("moveaxis", "%s %s %s" % (fmt_vec(s), fmt_vec(ax), fmt_vec(bx)), mv_reason(d, ax, bx), shape=s, src=ax, dst=bx)
            for _ in range(40 if quick else 400):
                ax, bx = list(rng.choice(lists)), list(rng.choice(lists))
                tgt = ax if rng.random() < 0.5 else bx
                tgt[rng.randrange(L)] = rng.choice([-d - 2, -d - 1, d, d + 1])
                add("moveaxis", "%s %s %s" % (fmt_vec(s), fmt_vec(ax), fmt_vec(bx)), mv_reason(d, ax, bx), shape=s, src=ax, dst=bx)
            # flip / expand_dims lists of the same lengths (exhaustive over in-range entries up to 3 entries)
            fl = lists if len(lists) <= 300 else rng.sample(lists, 300)
            for ax in fl:
                r = "axes_ok" if len({a % d for a in ax}) == L else "axis_duplicate"
                add("flip", "%s %s" % (fmt_vec(s), fmt_vec(ax)), r, shape=s, axes=list(ax))
            nd = d + L
            el = [list(t) for t in itertools.product(range(-nd, nd), repeat=L)]
            el = el if len(el) <= 300 else rng.sample(el, 300)
            for ax in el:
                r = "axes_ok" if len({a % nd for a in ax}) == L else "axis_duplicate"
                add("expand_dims", "%s %s" % (fmt_vec(s), fmt_vec(ax)), r, shape=s, axes=list(ax))
    return cases


def reshape_valid(n, ns):
    if len(ns) == 0 or ns.count(-1) > 1 or any(x == 0 or x < -1 for x in ns):
        return False
    p = 1
    for x in ns:
        if x != -1:
            p *= x
    return (n % p == 0) if -1 in ns else (p == n)


def numpy_accepts(mod, m):
    if m.get("op") == "reshape" and not reshape_valid(int(np.prod(m["shape"])), m["newshape"]):
        # NumPy treats every negative extent as "infer"; the property lists negative extents as invalid
        return False, None
    if m.get("c15x"):
        # cases of vf/c15_invalid.py: explicit, documented rules where NumPy and the property text differ or where the
        # module's expected() has no exact reference (returns None for valid arguments)
        ov = X.override(m)
        if ov is False:
            return False, None
        if ov is True:
            try:
                return True, mod.expected(m)
            except Exception:
                return True, None
    try:
        e = mod.expected(m)
        return e is not None, e
    except Exception:
        return False, None


# (name, module, generator, record parser or None for the module's PARSE / the standard view record)
INVALID_SOURCES = [("c03", C03, gen_c03_invalid, None)]

# value modules whose invalid argument space is generated by vf/c15_invalid.py (existing harness ops and references)
X_SOURCES = [("c04", "gen_c04_invalid", "parse"), ("c07", "gen_c07_invalid", None), ("c08", "gen_c08_invalid", None), ("c16", "gen_c16_invalid", "parse")]

# Per-(op, reason) refinement of the 'checked' decision (DESIGN.md 1.6 decides per operation from the result type).
# An operation can return an optional because it validates ONE argument position (e.g. take: the axis) while another
# position is not validated at all.  Where the property statement names the argument kind (X.named_by_property), an
# accepted invalid argument is a violation; where it does not, the position is listed here after triage and its invalid
# cases go to the unchecked inventory ("unchecked_positions" in the evidence: cases, how many had a value / died) instead of
# raising an alarm - a broken precondition, nothing is demanded.  Entries = observations on the unchanged tree:
UNCHECKED_POSITIONS = {
    # view::tensordot returns an optional because it is a broadcast-multiply + sum pipeline; the length of the two axis
    # lists and the integer number of axes are never compared with anything (2-axis list against a 1-axis list: value or
    # std::out_of_range; n above an operand's dimension: std::out_of_range).  The property names "mismatching operand
    # shapes in ... matmul/dot" and "out-of-range or duplicate axes" (both stay checked for tensordot), not these two.
    ("la_tensordot_axes", "wrong_length"),
    ("la_tensordot_n", "count_out_of_range"),
}


def x_sources():
    from ..integrated import VALUE
    out = []
    for n, gen, parse in X_SOURCES:
        if n not in VALUE:
            continue
        mod = importlib.import_module("vf.checks." + n)
        out.append((n, mod, getattr(X, gen), getattr(mod, parse) if parse else None))
    return out


def extra_sources():
    """value modules that ship their own invalid-argument generator: gen_invalid(rng, tier)"""
    out = []
    from ..integrated import VALUE
    covered = {"c03"} | {n for n, _, _ in X_SOURCES}
    for n in [v for v in VALUE if v not in covered]:
        try:
            mod = importlib.import_module("vf.checks." + n)
        except Exception:
            continue
        if getattr(mod, "CLAIM", None) and hasattr(mod, "gen_invalid") and hasattr(mod, "expected"):
            out.append((n, mod, mod.gen_invalid, None))
    return out


BIG_META = ("args", "data", "opds", "da", "db")
CHUNK = 20000


class Obs:
    """what part A keeps of one executed case (the parsed arrays are dropped chunk by chunk)"""
    __slots__ = ("m", "line", "M", "hv", "vshape", "routes", "crash", "stderr", "timeout", "err", "exc", "hooks", "norec")

    def __init__(self, cr):
        self.m = cr.m
        self.line = cr.line[:1500]
        self.crash = cr.crash.kind() if cr.crash is not None else None
        self.stderr = cr.crash.stderr[-2500:] if cr.crash is not None else None
        self.timeout = cr.timeout
        self.hooks = cr.hooks
        rec = cr.rec
        self.norec = rec is None
        self.M = rec.get("M") if rec else None
        self.err = rec.get("error") if rec else None
        self.exc = None
        raw = cr.raw or []
        if "EXC" in raw:
            # a C++ exception escaped from the library (while the view was built, read or evaluated)
            k = raw.index("EXC")
            what = raw[k + 1] if k + 1 < len(raw) else "?"
            self.exc = "exception"       # the exception text depends on the argument values: not part of the key
            self.stderr = "C++ exception escaped: " + what[:300]
            if self.M is None and len(raw) > 1 and raw[0] == "M":
                self.M = int(raw[1])
        v = rec.get("V") if rec and not self.err else None
        self.hv = v is not None
        self.vshape = v.get("shape") if v else None
        self.routes = [r for r in ("E", "C", "O", "OC") if rec and not self.err and rec.get(r) is not None]


# ------------------------------------------------------------------ part B: failing stages inside pipelines
def lab(shape, base=100, step=1):
    n = int(np.prod(shape))
    return (base + step * np.arange(n)).reshape(shape).astype(np.int32)


def rand_newshape(rng, n):
    """a reshape target that is valid or invalid"""
    r = rng.random()
    if r < 0.5:
        f = []
        rem = n
        for _ in range(rng.randint(1, 3) - 1):
            ds = [d for d in range(1, rem + 1) if rem % d == 0]
            d = rng.choice(ds)
            f.append(d)
            rem //= d
        f.append(rem)
        rng.shuffle(f)
        if rng.random() < 0.3:
            f[rng.randrange(len(f))] = -1
        return f
    return [rng.randint(-2, 4) for _ in range(rng.randint(1, 3))]


def np_reshape(a, ns):
    if not reshape_valid(a.size, list(ns)):
        raise ValueError("invalid reshape")
    return a.reshape(ns)


def try_np(f):
    try:
        return f()
    except Exception:
        return None


def gen_fail_pipes(rng, tier):
    n_per = 150 if tier == "quick" else 3000
    cases = []

    def add(op, args, stages, **m):
        m.update(op=op, args=args, stages=stages)
        cases.append(m)

    for _ in range(n_per):
        s = [rng.randint(1, 3) for _ in range(rng.randint(1, 3))]
        n = int(np.prod(s))
        a = lab(s)
        ns = rand_newshape(rng, n)
        r1 = try_np(lambda: np_reshape(a, ns))
        k = len(ns) if r1 is None else r1.ndim
        # transpose(reshape): keep the (unchecked) transpose axes valid
        ax = list(rng.sample(range(k), k))
        r2 = try_np(lambda: np.transpose(r1, ax)) if r1 is not None else None
        add("q_t_reshape", "%s %s %s" % (fmt_vec(s), fmt_vec(ns), fmt_vec(ax)), [r1, r2])
        sb = [rng.randint(1, 3) for _ in range(rng.randint(1, 3))]
        b = lab(sb, 1000, 7)
        r2 = try_np(lambda: r1 + b) if r1 is not None else None
        add("q_add_reshape", "%s %s %s" % (fmt_vec(s), fmt_vec(ns), fmt_vec(sb)), [r1, r2])
        axis = rng.randrange(-k, k)
        r2 = try_np(lambda: r1.sum(axis=axis)) if r1 is not None else None
        add("q_sum_reshape", "%s %s %d" % (fmt_vec(s), fmt_vec(ns), axis), [r1, r2])
        ns2 = rand_newshape(rng, n)
        r2 = try_np(lambda: np_reshape(r1, ns2)) if r1 is not None else None
        add("q_reshape_reshape", "%s %s %s" % (fmt_vec(s), fmt_vec(ns), fmt_vec(ns2)), [r1, r2])
        sa = [rng.randint(1, 3) for _ in range(rng.randint(1, 3))]
        sc = [rng.randint(1, 3) for _ in range(rng.randint(1, 3))]
        x1 = try_np(lambda: lab(sa, 1) + lab(sb, 2, 3))
        x2 = try_np(lambda: x1 * lab(sc, 5, 2)) if x1 is not None else None
        add("q_mul_add_bcast", "%s %s %s" % (fmt_vec(sa), fmt_vec(sb), fmt_vec(sc)), [x1, x2])
        tgt = [rng.randint(1, 3) for _ in range(rng.randint(1, 3))]
        r2 = try_np(lambda: np.broadcast_to(r1, tgt)) if r1 is not None else None
        ax = list(rng.sample(range(len(tgt)), len(tgt)))
        r3 = try_np(lambda: np.transpose(r2, ax)) if r2 is not None else None
        add("q3_t_bcast_reshape", "%s %s %s %s" % (fmt_vec(s), fmt_vec(ns), fmt_vec(tgt), fmt_vec(ax)), [r1, r2, r3])
        r2 = try_np(lambda: r1 + b) if r1 is not None else None
        kk = r2.ndim if r2 is not None else max(k, len(sb))
        axis = rng.randrange(-kk, kk)
        r3 = try_np(lambda: r2.sum(axis=axis)) if r2 is not None else None
        add("q3_sum_add_reshape", "%s %s %s %d" % (fmt_vec(s), fmt_vec(ns), fmt_vec(sb), axis), [r1, r2, r3])
    return cases


def parse_qpipe(toks):
    t = Tok(toks)
    if t.peek() in ("ERR", "EXC"):
        return {"error": " ".join(toks)}
    st = []
    while t.peek() in ("S1", "S2", "S3"):
        t.s()
        st.append(t.i())
    rec = V.parse_view_record(toks[t.p:])
    rec["stages"] = st
    return rec


def run(ctx):
    acc = HookAcc()
    ncrash = 0
    unchecked = {}
    checked = {}
    reasons_seen = {}
    # ---- part A
    positions = {}
    ncases = {}
    for name, mod, gen, parse in INVALID_SOURCES + x_sources() + extra_sources():
        rng = ctx.rng.__class__(ctx.seed * 15485863 + int(name[1:]))
        cases = gen(rng, ctx.tier)
        ncases[name] = len(cases)
        parse = parse or getattr(mod, "PARSE", V.parse_view_record)
        obs = []
        for k0 in range(0, len(cases), CHUNK):
            res = V.run_module_cases(mod.HARNESS, cases[k0:k0 + CHUNK], "asan", parse=parse)
            for cr in res:
                if cr.m.get("op") == "<exit>":
                    ctx.inconc("a %s runner died outside a case: %s" % (name, cr.crash.kind() if cr.crash else "?"))
                    continue
                obs.append(Obs(cr))
            del res
        # which ops return an optional at all (M flag) - decided from the records of this run
        opM = {}
        for o in obs:
            if o.M is not None:
                opM.setdefault(o.m["op"], set()).add(o.M)
        for o in obs:
            m = o.m
            op = m["op"]
            kop = X.key_op(m) if m.get("c15x") else op      # operation name in violation keys
            reason = m.get("reason", "?")
            lenient = m.get("c15x") and reason in X.LENIENT_REASONS
            ok, exp = numpy_accepts(mod, m)
            det = dict(case={k: v for k, v in m.items() if k not in BIG_META}, line=o.line, numpy_accepts=ok)
            if m.get("c15x") and (reason in X.OK_REASONS) != ok:
                # label and oracle disagree: a bug of the generator, never an alarm
                ctx.inconc("generator label '%s' disagrees with the reference (accepts=%s) for %s" % (reason, ok, o.line[:300]))
                continue
            fault = o.crash or o.exc
            is_checked = 1 in opM.get(op, set())
            if not is_checked:
                # unchecked operation: invalid arguments are a broken precondition, nothing is demanded of them;
                # valid arguments still must not crash
                unchecked.setdefault(kop, {"invalid_cases_ignored": 0, "valid_cases": 0})
                if ok and not lenient:
                    unchecked[kop]["valid_cases"] += 1
                    if fault:
                        ctx.violation("%s:%s:crash:%s" % (kop, reason, fault), "%s %s (valid arguments) died: %s" % (op, det["case"], fault), dict(det, stderr=o.stderr))
                else:
                    unchecked[kop]["invalid_cases_ignored"] += 1
                continue
            if not ok and (op, reason) in UNCHECKED_POSITIONS and not X.named_by_property(op, reason):
                # checked operation, unchecked argument position (see UNCHECKED_POSITIONS)
                p = positions.setdefault("%s:%s" % (op, reason), {"invalid_cases_ignored": 0, "had_value": 0, "nothing": 0, "died": 0})
                p["invalid_cases_ignored"] += 1
                p["died" if fault else ("had_value" if o.hv else "nothing")] += 1
                continue
            checked.setdefault(kop, {"valid": 0, "invalid": 0})
            checked[kop]["valid" if ok else "invalid"] += 1
            if fault:
                ncrash += 1
                ctx.violation("%s:%s:crash:%s" % (kop, reason, fault), "%s %s died instead of reporting %s: %s" % (op, det["case"], "a value" if ok else "Nothing", fault), dict(det, stderr=o.stderr))
                continue
            if o.timeout:
                ctx.inconc("timeout in %s" % o.line[:200])
                continue
            if o.err and o.err.startswith("ERR"):
                ctx.inconc("harness error '%s' in %s" % (o.err[:80], o.line[:200]))
                continue
            if o.norec or o.err:
                continue
            ctx.ev()
            hv = o.hv
            if lenient:
                pass        # a value and Nothing are both acceptable (see X.LENIENT_REASONS)
            elif hv and not ok:
                ctx.violation("%s:%s:accepted_invalid" % (kop, reason), "%s %s returns a value (shape %s) where NumPy raises" % (op, det["case"], o.vshape), det)
            elif not hv and ok:
                if not (op == "squeeze"):
                    ctx.violation("%s:%s:rejected_valid" % (kop, reason), "%s %s returns Nothing where NumPy returns shape %s" % (op, det["case"], list(exp.shape) if exp is not None else "?"), det)
            # Nothing must stay Nothing through evaluation
            if not hv:
                for route in o.routes:
                    ctx.violation("%s:%s:value_from_nothing" % (kop, route), "%s %s: view is Nothing but evaluation route %s produced a value" % (op, det["case"], route), det)
            acc.add(o.hooks)
            if not ok:
                ctx.seen((op, reason, m["args"]))
                reasons_seen.setdefault(kop, set()).add(reason)
                if len(ctx.samples) < 4 and ctx.rng.random() < 0.01:
                    ctx.sample(dict(op=op, args=m["args"][:300], reason=reason, numpy_raises=True, has_value=hv))
        del obs
    # ---- part B
    pc = gen_fail_pipes(ctx.rng, ctx.tier)
    res = V.run_module_cases(HARNESS, pc, "asan", parse=parse_qpipe)
    fail_at = {}
    for cr in res:
        op = cr.m["op"]
        stages = cr.m["stages"]
        first_fail = next((k for k, r in enumerate(stages) if r is None), None)
        det = dict(case=dict(op=op, args=cr.m["args"], numpy_first_failing_stage=first_fail), line=cr.line)
        cls = "fail_at_%s" % (first_fail + 1 if first_fail is not None else "none")
        if cr.crash is not None:
            ncrash += 1
            ctx.violation("%s:%s:crash:%s" % (op, cls, cr.crash.kind()), "pipeline %s %s died: %s" % (op, cr.m["args"], cr.crash.kind()), dict(det, stderr=cr.crash.stderr[-2500:]))
            continue
        if cr.timeout:
            ctx.inconc("timeout in %s" % cr.line[:200])
            continue
        if cr.rec is None or "error" in cr.rec:
            continue
        ctx.ev()
        fail_at[cls] = fail_at.get(cls, 0) + 1
        st = cr.rec["stages"]
        # once empty, always empty
        for k in range(1, len(st)):
            if st[k - 1] == 0 and st[k] != 0:
                ctx.violation("%s:revived" % op, "pipeline %s %s: stage %d is empty but stage %d has a value" % (op, cr.m["args"], k, k + 1), det)
        hv = cr.rec["V"] is not None
        final = stages[-1]
        if final is None and hv:
            ctx.violation("%s:%s:accepted_invalid" % (op, cls), "pipeline %s %s yields a value (shape %s) although NumPy raises at stage %d" % (op, cr.m["args"], cr.rec["V"].get("shape"), first_fail + 1), det)
        elif final is not None and not hv:
            ctx.violation("%s:rejected_valid" % op, "pipeline %s %s yields Nothing although every stage is valid in NumPy" % (op, cr.m["args"]), det)
        elif final is not None:
            why = V.compare_np(cr.rec["V"], final)
            if why:
                ctx.violation("%s:value" % op, "pipeline %s %s: %s" % (op, cr.m["args"], why), det)
        if not hv:
            for route in ("E", "C", "O", "OC"):
                if cr.rec.get(route) is not None:
                    ctx.violation("%s:%s:value_from_nothing" % (op, route), "pipeline %s %s: view is Nothing but route %s produced a value" % (op, cr.m["args"], route), det)
        ctx.seen((op, cr.m["args"]))
        if len(ctx.samples) < 8 and first_fail is not None and ctx.rng.random() < 0.02:
            ctx.sample(dict(pipeline=op, args=cr.m["args"], numpy_first_failing_stage=first_fail + 1, stage_has_value=st, final_has_value=hv))
    ctx.rule = ("part A: invalid + valid argument space (labelled by reason) of the checked ops of C03/C04/C07/C08/C16 (%s cases); has_value == (NumPy accepts); " % sum(ncases.values()) +
                "part B: %d pipeline cases in which stage 1/2/3 may fail, optional passed on unwrapped. distinct = (op, reason, arguments) of invalid cases + pipeline cases" % len(pc))
    ctx.set("checked_ops", checked)
    ctx.set("unchecked_inventory", unchecked)
    ctx.set("unchecked_positions", positions)
    ctx.set("part_a_cases_per_source", ncases)
    ctx.set("invalid_reasons_covered", {k: sorted(v) for k, v in reasons_seen.items()})
    ctx.set("pipeline_failure_positions", fail_at)
    ctx.set("crashes_contained", ncrash)
