"""C10: eager evaluation returns exactly the lazy view; composition is unobservable."""
import importlib
import itertools

import numpy as np

from .. import viewrun as V
from ..util import fmt_vec, HookAcc, Tok, all_shapes

CLAIM = dict(
    technique="runtime monitoring: every view execution of the value-level workloads is re-read through 4 routes (lazy view(i...), eval row-major, eval column-major + raw buffer, eval into a sentinel-filled caller output) and compared route against route; fused vs staged evaluation of 2-3 stage pipelines; eval-skip hook",
    text="For every case of the value-level workloads (C03..C08, C16, C17 generators that exist in this tree) the same view object is read lazily at every index and evaluated eagerly three ways; shapes and all elements must agree, the column-major result's raw buffer must be the F-order flattening, a supplied output pre-filled with a sentinel must be completely overwritten, and the evaluator's silent early return (hook EVAL_SKIP) must never fire. 16 hand-written pipelines (chains of 2 and 3, binary trees) are evaluated fused (view of view) and staged (inner view evaluated to a concrete array first) on seeded NumPy-valid arguments and must agree with each other and with NumPy. Held-on-observed.",
    note="Trusted: the harness' own odometer; NumPy for the pipelines' independent reference. Only dynamic result storage is exercised here (fixed/bounded result kinds: C09/C11).",
    ref="DESIGN.md 4/C10")
HARNESS = ["c10_pipes_a", "c10_pipes_b", "c10_pipes_c"]
TARGETS_QUICK = [("c10_pipes_a", "asan"), ("c10_pipes_b", "asan"), ("c10_pipes_c", "asan")]

from ..integrated import VALUE as VALUE_MODULES


def value_modules():
    out = []
    for n in VALUE_MODULES:
        try:
            m = importlib.import_module("vf.checks." + n)
        except ModuleNotFoundError:
            continue
        except Exception:
            continue
        if hasattr(m, "gen_cases") and hasattr(m, "HARNESS") and getattr(m, "CLAIM", None):
            out.append((n, m))
    return out


CASE_CAP = 40000


def cap_cases(rng, cases, cap=None):
    """bound the re-read workload per module (the thorough generators of the owning modules yield up to 340k cases;
    keeping all parsed records of all modules in memory is what got a thorough run OOM-killed)"""
    cap = cap or CASE_CAP
    if len(cases) <= cap:
        return cases
    idx = sorted(rng.sample(range(len(cases)), cap))
    return [cases[i] for i in idx]


def recs_of(rec):
    if rec is None:
        return []
    if "views" in rec:
        return list(rec["views"])
    if "V" in rec:
        return [rec]
    return []


def check_routes(ctx, op, rec, det, tag=""):
    """route-vs-route comparison of one emit_view_all record. returns number of problems"""
    v = rec["V"]
    n = 0
    for route in ("E", "C", "O"):
        r = rec.get(route)
        if route == "O" and r is None and v is not None and (v.get("scalar") or (v.get("data") is None)):
            continue
        if route == "C" and r is None and v is not None and v.get("scalar"):
            continue
        if route == "O" and r is None and v is not None and len(v.get("shape") or []) == 0:
            continue
        if v is None:
            if r is not None:
                ctx.violation("%s:%s:value_from_nothing" % (op, route), "%s%s: lazy view is Nothing but route %s produced a value" % (op, tag, route), det)
                n += 1
            continue
        if r is None:
            ctx.violation("%s:%s:nothing" % (op, route), "%s%s: lazy view has a value but route %s is Nothing" % (op, tag, route), det)
            n += 1
            continue
        if not V.same_array(r, v):
            sym = "shape" if (r.get("shape") != v.get("shape") or bool(r.get("scalar")) != bool(v.get("scalar"))) else "element"
            if route == "O" and sym == "element" and any(x in (V_SENT, 113) for x in (r.get("data") or [])):
                sym = "output_not_written"
            ctx.violation("%s:%s:%s" % (op, route, sym), "%s%s: route %s gives shape %s data %s, lazy view gives shape %s data %s" % (
                op, tag, route, r.get("shape"), (r.get("data") or [])[:12], v.get("shape"), (v.get("data") or [])[:12]), det)
            n += 1
    # raw buffer of the column-major result is the F-order flattening
    if v is not None and rec.get("CB") is not None and not v.get("scalar") and v.get("data") is not None and rec.get("C") is not None:
        cb = rec["CB"]
        if len(cb) == len(v["data"]) and len(cb) > 0:
            a = np.array(v["data"], dtype=object).reshape(v["shape"])
            exp = list(a.flatten("F"))
            if not all((x == y) or (x != x and y != y) for x, y in zip(cb, exp)):
                ctx.violation("%s:C:buffer_layout" % op, "%s%s: buffer of the column-major result is %s, expected F-order %s" % (op, tag, cb[:12], exp[:12]), det)
                n += 1
    return n


V_SENT = -77770000


# ---------------------------------------------------------------- pipelines
def rand_shape(rng, dmin, dmax, emax):
    return [rng.randint(1, emax) for _ in range(rng.randint(dmin, dmax))]


def rand_factorization(rng, n, maxlen=3):
    f = []
    rem = n
    for _ in range(rng.randint(1, maxlen) - 1):
        ds = [d for d in range(1, rem + 1) if rem % d == 0]
        d = rng.choice(ds)
        f.append(d)
        rem //= d
    f.append(rem)
    rng.shuffle(f)
    return f


def bcast_partner(rng, t):
    s = [e if rng.random() < 0.6 else 1 for e in t]
    r = rng.random()
    if r < 0.25 and len(s) > 1:
        s = s[rng.randint(1, len(s) - 1):]
    return s if s else [1]


def lab(shape, base=100, step=1, dtype=np.int32):
    n = int(np.prod(shape))
    return (base + step * np.arange(n)).reshape(shape).astype(dtype)


def gen_pipes(rng, tier):
    n_per = 120 if tier == "quick" else 1500
    cases = []

    def add(op, args, exp, **m):
        m.update(op=op, args=args, exp=exp)
        cases.append(m)

    for _ in range(n_per):
        s = rand_shape(rng, 1, 3, 4)
        n = int(np.prod(s))
        a = lab(s)
        # transpose(reshape)
        ns = rand_factorization(rng, n)
        ax = list(rng.sample(range(len(ns)), len(ns)))
        add("p_transpose_reshape", "%s %s %s" % (fmt_vec(s), fmt_vec(ns), fmt_vec(ax)), np.transpose(a.reshape(ns), ax), shape=s)
        ax = list(rng.sample(range(len(s)), len(s)))
        ns = rand_factorization(rng, n)
        add("p_reshape_transpose", "%s %s %s" % (fmt_vec(s), fmt_vec(ax), fmt_vec(ns)), np.transpose(a, ax).reshape(ns), shape=s)
        reps = [rng.randint(1, 2) for _ in range(rng.randint(1, len(s) + 1))]
        t = np.tile(a, reps)
        axis = rng.randrange(-t.ndim, t.ndim)
        add("p_flip_tile", "%s %s %d" % (fmt_vec(s), fmt_vec(reps), axis), np.flip(t, axis), shape=s)
        axis = rng.randint(-(len(s) + 1), len(s))
        e = np.expand_dims(a, axis)
        tgt = [x if x != 1 or rng.random() < 0.4 else rng.randint(1, 3) for x in e.shape]
        if rng.random() < 0.3:
            tgt = [rng.randint(1, 2)] + tgt
        add("p_bcast_expand", "%s %d %s" % (fmt_vec(s), axis, fmt_vec(tgt)), np.broadcast_to(e, tgt), shape=s)
        axis = rng.randrange(-len(s), len(s))
        ns = rand_factorization(rng, n)
        ax = list(rng.sample(range(len(ns)), len(ns)))
        add("p3_t_r_f", "%s %d %s %s" % (fmt_vec(s), axis, fmt_vec(ns), fmt_vec(ax)), np.transpose(np.flip(a, axis).reshape(ns), ax), shape=s)
        # ufunc / reductions
        ax = list(rng.sample(range(len(s)), len(s)))
        ta = np.transpose(a, ax)
        sb = bcast_partner(rng, list(ta.shape))
        b = lab(sb, 1000, 7)
        add("p_add_transpose", "%s %s %s" % (fmt_vec(s), fmt_vec(ax), fmt_vec(sb)), ta + b, shape=s)
        s2 = rand_shape(rng, 2, 3, 3)
        a2 = lab(s2)
        sb = bcast_partner(rng, s2)
        b = lab(sb, 1000, 7)
        r = a2 + b
        axis = rng.randrange(-r.ndim, r.ndim)
        add("p_sum_add", "%s %s %d" % (fmt_vec(s2), fmt_vec(sb), axis), r.sum(axis=axis), shape=s2)
        axis = rng.randrange(-len(s2), len(s2))
        r = a2.sum(axis=axis)
        ns = rand_factorization(rng, int(r.size))
        add("p_reshape_sum", "%s %d %s" % (fmt_vec(s2), axis, fmt_vec(ns)), r.reshape(ns), shape=s2)
        a1 = lab(s2, 1)
        axis = rng.randrange(-len(s2), len(s2))
        add("p_mul_sumkeep", "%s %d" % (fmt_vec(s2), axis), a1.sum(axis=axis, keepdims=True) * a1, shape=s2)
        ax = list(rng.sample(range(len(s2)), len(s2)))
        ta = np.transpose(a1, ax)
        sb = bcast_partner(rng, list(ta.shape))
        b = lab(sb, 3, 2)
        r = ta * b
        axis = rng.randrange(-r.ndim, r.ndim)
        add("p3_sum_mul_t", "%s %s %s %d" % (fmt_vec(s2), fmt_vec(ax), fmt_vec(sb), axis), r.sum(axis=axis), shape=s2)
        ax = list(rng.sample(range(len(s)), len(s)))
        add("p_sub_views", "%s %s" % (fmt_vec(s), fmt_vec(ax)), np.transpose(a, ax) - np.transpose(lab(s, 5000, 3), ax), shape=s)
        # matmul(transpose(a), b)
        d = rng.randint(2, 3)
        sa = rand_shape(rng, d, d, 3)
        ax = list(range(d - 2)) + [d - 1, d - 2] if rng.random() < 0.7 else list(rng.sample(range(d), d))
        ta = np.transpose(lab(sa, 1), ax)
        k = ta.shape[-1]
        nn = rng.randint(1, 3)
        sb = [k, nn] if rng.random() < 0.6 or d == 2 else [ta.shape[0] if rng.random() < 0.5 else 1, k, nn]
        b = lab(sb, 2, 3)
        try:
            add("p_matmul_t", "%s %s %s" % (fmt_vec(sa), fmt_vec(ax), fmt_vec(sb)), np.matmul(ta, b), shape=sa)
        except ValueError:
            pass
        ax = list(rng.sample(range(len(s)), len(s)))
        ta = np.transpose(a, ax)
        axis = rng.randrange(0, ta.ndim)   # negative concatenate axes are C04's business (library: "TODO: allow negative axis")
        sb = list(ta.shape)
        sb[axis] = rng.randint(1, 3)
        add("p_concat_t", "%s %s %s %d" % (fmt_vec(s), fmt_vec(ax), fmt_vec(sb), axis), np.concatenate([ta, lab(sb, 5000)], axis=axis), shape=s)
        sb = bcast_partner(rng, s)
        r = lab(s, 1) * lab(sb, 2, 3)
        beg = [rng.randint(0, 2) for _ in range(r.ndim)]
        end = [rng.randint(0, 2) for _ in range(r.ndim)]
        add("p_pad_mul", "%s %s %s" % (fmt_vec(s), fmt_vec(sb), fmt_vec(beg + end)), np.pad(r, list(zip(beg, end)), constant_values=-9), shape=s)
        # float pipelines
        sb = bcast_partner(rng, s)
        fa = (np.arange(n, dtype=np.float32) * np.float32(0.25)).reshape(s)
        fb = (np.float32(-2) + np.arange(int(np.prod(sb)), dtype=np.float32)).reshape(sb)
        r = fa + fb
        axis = rng.randrange(-r.ndim, r.ndim)
        ex = np.exp(r - r.max(axis=axis, keepdims=True))
        add("p_softmax_add", "%s %s %d" % (fmt_vec(s), fmt_vec(sb), axis), ex / ex.sum(axis=axis, keepdims=True), shape=s, approx=True)
        fa = ((np.float32(-3) + np.arange(n, dtype=np.float32)) * np.float32(0.5)).reshape(s)
        fb = (np.float32(-4) + np.arange(int(np.prod(sb)), dtype=np.float32)).reshape(sb)
        add("p_add_tanh_relu", "%s %s" % (fmt_vec(s), fmt_vec(sb)), np.tanh(fa) + np.maximum(fb, 0), shape=s, approx=True)
    return cases


def parse_pipe(toks):
    """F <view record | NOTHING> G <view record | NOTHING>"""
    t = Tok(toks)
    if t.peek() in ("ERR", "EXC"):
        return {"error": " ".join(toks)}
    out = {}
    t.expect("F")
    g = toks.index("G", t.p)
    ft = toks[t.p:g]
    gt = toks[g + 1:]
    out["F"] = None if ft[:1] == ["NOTHING"] else V.parse_view_record(ft)
    out["G"] = None if gt[:1] == ["NOTHING"] else V.parse_view_record(gt)
    return out


def close_arrays(a, b, ulps):
    """parsed arrays equal up to `ulps` float32 ulps"""
    if a is None or b is None:
        return a is None and b is None
    if a.get("shape") != b.get("shape") or bool(a.get("scalar")) != bool(b.get("scalar")):
        return False
    x = np.array(a["data"], dtype=np.float64)
    y = np.array(b["data"], dtype=np.float64)
    if x.shape != y.shape:
        return False
    tol = ulps * np.spacing(np.maximum(np.abs(x), np.abs(y)).astype(np.float32)).astype(np.float64)
    return bool(np.all((np.abs(x - y) <= tol) | (np.isnan(x) & np.isnan(y))))


def run(ctx):
    acc = HookAcc()
    ncrash = 0
    per_mod = {}
    # ---- part A: re-read the value-level workloads
    for name, mod in value_modules():
        rng = ctx.rng.__class__(ctx.seed * 7919 + int(name[1:]))
        cases = cap_cases(rng, mod.gen_cases(rng, ctx.tier))
        parse = getattr(mod, "PARSE", V.parse_view_record)
        res = V.run_module_cases(mod.HARNESS, cases, "asan", parse=parse)
        nrec = 0
        for cr in res:
            op = cr.m["op"]
            det = dict(case={k: v for k, v in cr.m.items() if k not in ("args", "exp")}, line=cr.line)
            if cr.crash is not None:
                # a process death inside a single operation is decided by the module that owns the operation
                # (value oracle) and by C02 (memory safety); here it only means the routes could not be compared
                ncrash += 1
                continue
            if cr.timeout:
                ctx.inconc("timeout in %s" % cr.line[:200])
                continue
            for (site, f0, f1) in V.hook_problems(cr, acc):
                if site == "eval_skip":
                    ctx.violation("%s:eval_skip" % op, "%s: an evaluator returned without writing its output (shape mismatch) in %s" % (op, det["case"]), det)
            if cr.rec is None or "error" in cr.rec:
                continue
            for k, rec in enumerate(recs_of(cr.rec)):
                ctx.ev()
                nrec += 1
                check_routes(ctx, op, rec, det, tag="[%d]" % k if k else "")
                v = rec["V"]
                if v is not None and v.get("data") and len(v["data"]) > 1:
                    ctx.seen((op, cr.m["args"]))
        per_mod[name] = dict(cases=len(cases), records=nrec)
    # ---- part B: pipelines fused vs staged vs NumPy
    pcases = gen_pipes(ctx.rng, ctx.tier)
    res = V.run_module_cases(HARNESS, pcases, "asan", parse=parse_pipe)
    npipe = 0
    for cr in res:
        op = cr.m["op"]
        det = dict(case=dict(op=op, args=cr.m["args"]), line=cr.line)
        if cr.crash is not None:
            ncrash += 1
            ctx.violation("%s:crash:%s" % (op, cr.crash.kind()), "pipeline %s %s died: %s" % (op, cr.m["args"], cr.crash.kind()), dict(det, stderr=cr.crash.stderr[-2500:]))
            continue
        if cr.timeout:
            ctx.inconc("timeout in %s" % cr.line[:200])
            continue
        for (site, f0, f1) in V.hook_problems(cr, acc):
            if site == "eval_skip":
                ctx.violation("%s:eval_skip" % op, "%s: an evaluator returned without writing its output in pipeline %s" % (op, cr.m["args"]), det)
        if cr.rec is None:
            continue
        if "error" in cr.rec:
            ctx.violation("%s:harness_error" % op, cr.rec["error"][:300], det)
            continue
        ctx.ev()
        npipe += 1
        F, G = cr.rec["F"], cr.rec["G"]
        exp = cr.m["exp"]
        if F is None or G is None or F["V"] is None or G["V"] is None:
            ctx.violation("%s:nothing" % op, "pipeline %s %s: %s is Nothing for NumPy-valid arguments" % (op, cr.m["args"], "fused" if (F is None or F["V"] is None) else "staged"), det)
            continue
        approx = cr.m.get("approx")
        for nm_, rec in (("fused", F), ("staged", G)):
            check_routes(ctx, op + ":" + nm_, rec, det)
            why = V.compare_np(rec["V"], exp, exact=not approx, rtol=2e-5, atol=1e-6)
            if why:
                ctx.violation("%s:%s:vs_numpy" % (op, nm_), "pipeline %s %s (%s): %s" % (op, cr.m["args"], nm_, why), det)
        same = V.same_array(F["V"], G["V"]) if not approx else close_arrays(F["V"], G["V"], 2)
        if not same:
            ctx.violation("%s:fused_vs_staged" % op, "pipeline %s %s: evaluating the view of a view gives shape %s %s..., evaluating the inner view first gives shape %s %s..." % (
                op, cr.m["args"], F["V"].get("shape"), (F["V"].get("data") or [])[:10], G["V"].get("shape"), (G["V"].get("data") or [])[:10]), det)
        if exp.size > 1:
            ctx.seen((op, cr.m["args"]))
        if len(ctx.samples) < 6 and exp.size > 3 and ctx.rng.random() < 0.02:
            ctx.sample(dict(pipeline=op, args=cr.m["args"], fused_shape=F["V"].get("shape"), staged_shape=G["V"].get("shape"), first=(F["V"].get("data") or [])[:6]))
    ctx.rule = ("part A: every case of the value-level generators %s re-read through lazy/eval-row/eval-col(+raw buffer)/supplied-output routes; "
                "part B: %d pipeline cases over 16 pipelines (chains of 2 and 3, binary trees) with seeded NumPy-valid arguments, fused vs staged vs NumPy. "
                "distinct = (op, arguments) with more than one result element" % ([n for n, _ in value_modules()], len(pcases)))
    ctx.set("value_modules", per_mod)
    ctx.set("pipeline_cases", npipe)
    ctx.set("hook_events", acc.summary())
    ctx.set("crashes_contained", ncrash)
    if npipe == 0:
        ctx.inconc("no pipeline executed")
