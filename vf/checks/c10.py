"""C10: eager evaluation returns exactly the lazy view; composition is unobservable."""
import importlib
import itertools
import os
from concurrent.futures import ThreadPoolExecutor

import numpy as np

from .. import build as B
from .. import run as R
from .. import c10_gen as G
from .. import viewrun as V
from ..core import Inconclusive
from ..util import fmt_vec, HookAcc, Tok, all_shapes, split_hooks

CLAIM = dict(
    technique="runtime monitoring: every view execution of the value-level workloads is re-read through 5 routes (lazy view(i...), eval row-major, eval column-major + raw buffer, eval into a sentinel-filled caller output, row-major and column-major) and compared route against route; fused vs staged evaluation of 16 hand-written and ~60 (quick) / ~350 (thorough) GENERATED 2-3 stage pipelines (vf/c10_gen.py: stage registry, compile-probed allow-list vf/c10_supported.json) against each other and against NumPy; eval-skip hook",
    text="For every case of the value-level workloads (C03..C08, C16, C17 generators that exist in this tree) the same view object is read lazily at every index and evaluated eagerly three ways; shapes and all elements must agree, the column-major result's raw buffer must be the F-order flattening, a supplied output (row-major, and column-major) pre-filled with a sentinel must be completely overwritten with the view's elements at their logical indices, and the evaluator's silent early return (hook EVAL_SKIP) must never fire. Pipelines: 16 hand-written ones plus generated compositions of 48 stages (reshape, transpose, flip, moveaxis, swapaxes, expand_dims, squeeze, tile, repeat, roll, pad, slice, take, broadcast_to, unary/binary/scalar ufuncs, sum/prod/amax reductions with int/list/None axis and keepdims, cumsum/cumprod, concatenate, stack, where, matmul, outer, tensordot, softmax, max_pool2d) in the structure classes chain2, chain3, tree1l/tree1r (op(f(a),b) / op(a,g(b))), tree2 (op(f(a),g(b))), tree3 and '.lifted' (an optional inner view handed to the outer operation without unwrapping), over dynamic leaves and hybrid leaves (run-time shape, bounded buffer: the result storage of the fused pipeline is inferred as bounded); each is evaluated fused (view of views) and staged (every inner view evaluated to a concrete array first) on seeded NumPy-valid arguments (10 / 30 argument sets per pipeline) and must agree with each other and with the NumPy model in shape and every element, and both must satisfy the route rules. A run executes a deterministic core (reductions / accumulations over enlarging inner views, outer operations over concatenate / stack, one representative per class) plus VERIF_SEED-chosen translation units of the allow-list (~4100 pipelines that compile on the unchanged tree). Held-on-observed.",
    note="Trusted: the harness' own odometer; NumPy (max_pool2d: nested-loop model) for the pipelines' independent reference; integer-valued data with unique labels, small magnitudes where products are involved (cases whose intermediate values leave int32 are not generated), float pipelines (softmax) compared within 4e-6*max(1,|intermediate|). Compositions that do not compile on the unchanged tree are outside the allow-list ('rejected' in vf/c10_supported.json); a translation unit that stops compiling is inconclusive. Known-finding classes of other properties are not generated (squeeze of an all-ones shape, matmul with a 1-d operand); classes suspended pending triage are listed in the evidence (excluded_pending_triage). Fixed / constant-shape result kinds: C09/C11.",
    ref="DESIGN.md 4/C10")
HARNESS = ["c10_pipes_a", "c10_pipes_b", "c10_pipes_c"]


def gen_targets(chunks, flavor="asan"):
    """build targets of generated translation units (vf/c10_gen.py); the name is a hash of the text, so that the binaries are
    shared by all seeds and both tiers"""
    out = []
    for c in chunks:
        text = G.gen_tu(c)
        nm = "c10g_" + G.hashlib.sha1(text.encode()).hexdigest()[:12]
        out.append(B.Target(nm + ".cpp", flavor, name=nm, text=text))
    return out


def gen_quick_targets():
    """the generated translation units of the quick tier for the current VERIF_SEED (prebuilt by setup.sh)"""
    seed = int(os.environ.get("VERIF_SEED", "0") or 0)
    return gen_targets(G.select("quick", seed))


TARGETS_QUICK = [("c10_pipes_a", "asan"), ("c10_pipes_b", "asan"), ("c10_pipes_c", "asan"), gen_quick_targets]

from ..integrated import VALUE as VALUE_MODULES


def value_modules():
    out = []
    for n in VALUE_MODULES:
        try:
            m = importlib.import_module("vf.checks." + n)
        except ModuleNotFoundError:
            continue
        except Exception:
            continue
        if hasattr(m, "gen_cases") and hasattr(m, "HARNESS") and getattr(m, "CLAIM", None):
            out.append((n, m))
    return out


CASE_CAP = 40000


def cap_cases(rng, cases, cap=None):
    """bound the re-read workload per module (the thorough generators of the owning modules yield up to 340k cases;
    keeping all parsed records of all modules in memory is what got a thorough run OOM-killed)"""
    cap = cap or CASE_CAP
    if len(cases) <= cap:
        return cases
    idx = sorted(rng.sample(range(len(cases)), cap))
    return [cases[i] for i in idx]


def recs_of(rec):
    if rec is None:
        return []
    if "views" in rec:
        return list(rec["views"])
    if "V" in rec:
        return [rec]
    return []


def check_routes(ctx, op, rec, det, tag=""):
    """route-vs-route comparison of one emit_view_all record. returns number of problems"""
    v = rec["V"]
    n = 0
    for route in ("E", "C", "O", "OC"):
        r = rec.get(route)
        if route == "OC" and r is None:
            # eval into a caller-supplied COLUMN-MAJOR output: not emitted for bool / scalar / 0-dim / too large results (and by
            # binaries built before the route existed)
            continue
        if route == "O" and r is None and v is not None and (v.get("scalar") or (v.get("data") is None)):
            continue
        if route == "C" and r is None and v is not None and v.get("scalar"):
            continue
        if route == "O" and r is None and v is not None and len(v.get("shape") or []) == 0:
            continue
        if v is None:
            if r is not None:
                ctx.violation("%s:%s:value_from_nothing" % (op, route), "%s%s: lazy view is Nothing but route %s produced a value" % (op, tag, route), det)
                n += 1
            continue
        if r is None:
            ctx.violation("%s:%s:nothing" % (op, route), "%s%s: lazy view has a value but route %s is Nothing" % (op, tag, route), det)
            n += 1
            continue
        # element type: the arrays the evaluator allocates itself (E, C) must have the element type the lazy view yields (a result
        # buffer typed from something else narrows / converts silently); supplied outputs (O, OC) have the caller's element type
        if route in ("E", "C") and r.get("tag") and v.get("tag") and r["tag"] != v["tag"] and not (r["tag"] in ("b1", "u1") and v["tag"] in ("b1", "u1")):
            ctx.violation("%s:%s:element_type" % (op, route), "%s%s: route %s has element type %s, the lazy view yields %s" % (op, tag, route, r["tag"], v["tag"]), det)
            n += 1
        if not V.same_array(r, v):
            sym = "shape" if (r.get("shape") != v.get("shape") or bool(r.get("scalar")) != bool(v.get("scalar"))) else "element"
            if route in ("O", "OC") and sym == "element" and any(x in (V_SENT, 113) for x in (r.get("data") or [])):
                sym = "output_not_written"
            ctx.violation("%s:%s:%s" % (op, route, sym), "%s%s: route %s gives shape %s data %s, lazy view gives shape %s data %s" % (
                op, tag, route, r.get("shape"), (r.get("data") or [])[:12], v.get("shape"), (v.get("data") or [])[:12]), det)
            n += 1
    # raw buffer of the column-major result is the F-order flattening
    if v is not None and rec.get("CB") is not None and not v.get("scalar") and v.get("data") is not None and rec.get("C") is not None:
        cb = rec["CB"]
        if len(cb) == len(v["data"]) and len(cb) > 0:
            a = np.array(v["data"], dtype=object).reshape(v["shape"])
            exp = list(a.flatten("F"))
            if not all((x == y) or (x != x and y != y) for x, y in zip(cb, exp)):
                ctx.violation("%s:C:buffer_layout" % op, "%s%s: buffer of the column-major result is %s, expected F-order %s" % (op, tag, cb[:12], exp[:12]), det)
                n += 1
    return n


V_SENT = -77770000


# ---------------------------------------------------------------- pipelines
def rand_shape(rng, dmin, dmax, emax):
    return [rng.randint(1, emax) for _ in range(rng.randint(dmin, dmax))]


def rand_factorization(rng, n, maxlen=3):
    f = []
    rem = n
    for _ in range(rng.randint(1, maxlen) - 1):
        ds = [d for d in range(1, rem + 1) if rem % d == 0]
        d = rng.choice(ds)
        f.append(d)
        rem //= d
    f.append(rem)
    rng.shuffle(f)
    return f


def bcast_partner(rng, t):
    s = [e if rng.random() < 0.6 else 1 for e in t]
    r = rng.random()
    if r < 0.25 and len(s) > 1:
        s = s[rng.randint(1, len(s) - 1):]
    return s if s else [1]


def lab(shape, base=100, step=1, dtype=np.int32):
    n = int(np.prod(shape))
    return (base + step * np.arange(n)).reshape(shape).astype(dtype)


def gen_pipes(rng, tier):
    n_per = 120 if tier == "quick" else 1500
    cases = []

    def add(op, args, exp, **m):
        m.update(op=op, args=args, exp=exp)
        cases.append(m)

    for _ in range(n_per):
        s = rand_shape(rng, 1, 3, 4)
        n = int(np.prod(s))
        a = lab(s)
        # transpose(reshape)
        ns = rand_factorization(rng, n)
        ax = list(rng.sample(range(len(ns)), len(ns)))
        add("p_transpose_reshape", "%s %s %s" % (fmt_vec(s), fmt_vec(ns), fmt_vec(ax)), np.transpose(a.reshape(ns), ax), shape=s)
        ax = list(rng.sample(range(len(s)), len(s)))
        ns = rand_factorization(rng, n)
        add("p_reshape_transpose", "%s %s %s" % (fmt_vec(s), fmt_vec(ax), fmt_vec(ns)), np.transpose(a, ax).reshape(ns), shape=s)
        reps = [rng.randint(1, 2) for _ in range(rng.randint(1, len(s) + 1))]
        t = np.tile(a, reps)
        axis = rng.randrange(-t.ndim, t.ndim)
        add("p_flip_tile", "%s %s %d" % (fmt_vec(s), fmt_vec(reps), axis), np.flip(t, axis), shape=s)
        axis = rng.randint(-(len(s) + 1), len(s))
        e = np.expand_dims(a, axis)
        tgt = [x if x != 1 or rng.random() < 0.4 else rng.randint(1, 3) for x in e.shape]
        if rng.random() < 0.3:
            tgt = [rng.randint(1, 2)] + tgt
        add("p_bcast_expand", "%s %d %s" % (fmt_vec(s), axis, fmt_vec(tgt)), np.broadcast_to(e, tgt), shape=s)
        axis = rng.randrange(-len(s), len(s))
        ns = rand_factorization(rng, n)
        ax = list(rng.sample(range(len(ns)), len(ns)))
        add("p3_t_r_f", "%s %d %s %s" % (fmt_vec(s), axis, fmt_vec(ns), fmt_vec(ax)), np.transpose(np.flip(a, axis).reshape(ns), ax), shape=s)
        # ufunc / reductions
        ax = list(rng.sample(range(len(s)), len(s)))
        ta = np.transpose(a, ax)
        sb = bcast_partner(rng, list(ta.shape))
        b = lab(sb, 1000, 7)
        add("p_add_transpose", "%s %s %s" % (fmt_vec(s), fmt_vec(ax), fmt_vec(sb)), ta + b, shape=s)
        s2 = rand_shape(rng, 2, 3, 3)
        a2 = lab(s2)
        sb = bcast_partner(rng, s2)
        b = lab(sb, 1000, 7)
        r = a2 + b
        axis = rng.randrange(-r.ndim, r.ndim)
        add("p_sum_add", "%s %s %d" % (fmt_vec(s2), fmt_vec(sb), axis), r.sum(axis=axis), shape=s2)
        axis = rng.randrange(-len(s2), len(s2))
        r = a2.sum(axis=axis)
        ns = rand_factorization(rng, int(r.size))
        add("p_reshape_sum", "%s %d %s" % (fmt_vec(s2), axis, fmt_vec(ns)), r.reshape(ns), shape=s2)
        a1 = lab(s2, 1)
        axis = rng.randrange(-len(s2), len(s2))
        add("p_mul_sumkeep", "%s %d" % (fmt_vec(s2), axis), a1.sum(axis=axis, keepdims=True) * a1, shape=s2)
        ax = list(rng.sample(range(len(s2)), len(s2)))
        ta = np.transpose(a1, ax)
        sb = bcast_partner(rng, list(ta.shape))
        b = lab(sb, 3, 2)
        r = ta * b
        axis = rng.randrange(-r.ndim, r.ndim)
        add("p3_sum_mul_t", "%s %s %s %d" % (fmt_vec(s2), fmt_vec(ax), fmt_vec(sb), axis), r.sum(axis=axis), shape=s2)
        ax = list(rng.sample(range(len(s)), len(s)))
        add("p_sub_views", "%s %s" % (fmt_vec(s), fmt_vec(ax)), np.transpose(a, ax) - np.transpose(lab(s, 5000, 3), ax), shape=s)
        # matmul(transpose(a), b)
        d = rng.randint(2, 3)
        sa = rand_shape(rng, d, d, 3)
        ax = list(range(d - 2)) + [d - 1, d - 2] if rng.random() < 0.7 else list(rng.sample(range(d), d))
        ta = np.transpose(lab(sa, 1), ax)
        k = ta.shape[-1]
        nn = rng.randint(1, 3)
        sb = [k, nn] if rng.random() < 0.6 or d == 2 else [ta.shape[0] if rng.random() < 0.5 else 1, k, nn]
        b = lab(sb, 2, 3)
        try:
            add("p_matmul_t", "%s %s %s" % (fmt_vec(sa), fmt_vec(ax), fmt_vec(sb)), np.matmul(ta, b), shape=sa)
        except ValueError:
            pass
        ax = list(rng.sample(range(len(s)), len(s)))
        ta = np.transpose(a, ax)
        axis = rng.randrange(0, ta.ndim)   # negative concatenate axes are C04's business (library: "TODO: allow negative axis")
        sb = list(ta.shape)
        sb[axis] = rng.randint(1, 3)
        add("p_concat_t", "%s %s %s %d" % (fmt_vec(s), fmt_vec(ax), fmt_vec(sb), axis), np.concatenate([ta, lab(sb, 5000)], axis=axis), shape=s)
        sb = bcast_partner(rng, s)
        r = lab(s, 1) * lab(sb, 2, 3)
        beg = [rng.randint(0, 2) for _ in range(r.ndim)]
        end = [rng.randint(0, 2) for _ in range(r.ndim)]
        add("p_pad_mul", "%s %s %s" % (fmt_vec(s), fmt_vec(sb), fmt_vec(beg + end)), np.pad(r, list(zip(beg, end)), constant_values=-9), shape=s)
        # float pipelines
        sb = bcast_partner(rng, s)
        fa = (np.arange(n, dtype=np.float32) * np.float32(0.25)).reshape(s)
        fb = (np.float32(-2) + np.arange(int(np.prod(sb)), dtype=np.float32)).reshape(sb)
        r = fa + fb
        axis = rng.randrange(-r.ndim, r.ndim)
        ex = np.exp(r - r.max(axis=axis, keepdims=True))
        add("p_softmax_add", "%s %s %d" % (fmt_vec(s), fmt_vec(sb), axis), ex / ex.sum(axis=axis, keepdims=True), shape=s, approx=True)
        fa = ((np.float32(-3) + np.arange(n, dtype=np.float32)) * np.float32(0.5)).reshape(s)
        fb = (np.float32(-4) + np.arange(int(np.prod(sb)), dtype=np.float32)).reshape(sb)
        add("p_add_tanh_relu", "%s %s" % (fmt_vec(s), fmt_vec(sb)), np.tanh(fa) + np.maximum(fb, 0), shape=s, approx=True)
    return cases


def parse_pipe(toks):
    """F <view record | NOTHING> G <view record | NOTHING>"""
    t = Tok(toks)
    if t.peek() in ("ERR", "EXC"):
        return {"error": " ".join(toks)}
    out = {}
    t.expect("F")
    g = toks.index("G", t.p)
    ft = toks[t.p:g]
    gt = toks[g + 1:]
    out["F"] = None if ft[:1] == ["NOTHING"] else V.parse_view_record(ft)
    out["G"] = None if gt[:1] == ["NOTHING"] else V.parse_view_record(gt)
    return out


def close_arrays(a, b, ulps):
    """parsed arrays equal up to `ulps` float32 ulps"""
    if a is None or b is None:
        return a is None and b is None
    if a.get("shape") != b.get("shape") or bool(a.get("scalar")) != bool(b.get("scalar")):
        return False
    x = np.array(a["data"], dtype=np.float64)
    y = np.array(b["data"], dtype=np.float64)
    if x.shape != y.shape:
        return False
    tol = ulps * np.spacing(np.maximum(np.abs(x), np.abs(y)).astype(np.float32)).astype(np.float64)
    return bool(np.all((np.abs(x - y) <= tol) | (np.isnan(x) & np.isnan(y))))


# ---------------------------------------------------------------- generated pipelines (vf/c10_gen.py)
class GenHarness:
    """The generated translation units of one run (deterministic core + VERIF_SEED-chosen chunks of the compile-probed
    allow-list) and their cases; `run` has the interface of viewrun.run_module_cases so that C02 can re-read the same
    executions."""

    def __init__(self, tier, seed):
        self.tier = tier
        self.seed = seed
        self.chunks = G.select(tier, seed)
        self.plan = G.gen_cases(self.chunks, seed, tier)      # [(chunk index, spec, cases)]
        self.cases = []
        for ci, spec, cs in self.plan:
            for c in cs:
                c["tu"] = ci
                c["spec"] = spec
                self.cases.append(c)

    def targets(self, flavor="asan"):
        return gen_targets(self.chunks, flavor)

    def run(self, cases, flavor="asan", parse=None, wrapper=None, timeout=900):
        """-> [CaseResult] in case order; raises Inconclusive if a translation unit no longer compiles"""
        parse = parse or parse_pipe
        ts = self.targets(flavor)
        res = B.build(ts)
        bad = [(t, k) for k, t in enumerate(res) if t.error]
        if bad:
            t, k = bad[0]
            raise Inconclusive("generated translation unit %s[%s] with pipelines %s no longer compiles (%d of %d units): %s" % (
                t.name, flavor, [G.render(sp["t"], sp["k"]) for sp in self.chunks[k]], len(bad), len(res), (t.error or "")[-500:].replace("\n", " | ")))
        out = []
        per_tu = {}
        for k, c in enumerate(cases):
            cid = str(k + 1)
            line = "%s %s %s" % (cid, c["op"], c["args"])
            # (for the checks that key on cr.m["op"] - C02 - the operation is the readable cause, not the hashed VH_OP name)
            cr = V.CaseResult(dict(c, op=G.key_prefix(c["spec"]), vh_op=c["op"]), line)
            out.append(cr)
            per_tu.setdefault(c["tu"], []).append((cid, line, cr))

        def one(item):
            tu, lst = item
            return tu, lst, R.run_cases(res[tu].binary, [(cid, line) for cid, line, _ in lst], nbatch=1, wrapper=wrapper, timeout=timeout)

        with ThreadPoolExecutor(max_workers=B.JOBS) as ex:
            done = list(ex.map(one, sorted(per_tu.items())))
        for tu, lst, (results, crashes, touts) in done:
            byid = {cid: cr for cid, _, cr in lst}
            for c in crashes:
                if c.case_id in byid:
                    byid[c.case_id].crash = c
                else:
                    cr = V.CaseResult(dict(op="<exit>", args="", tu=tu, spec=None), "")
                    cr.crash = c
                    out.append(cr)
            for t in touts:
                if t in byid:
                    byid[t].timeout = True
            for cid, _, cr in lst:
                if cid in results:
                    toks, hooks = split_hooks(results[cid])
                    cr.hooks = hooks
                    cr.raw = toks
                    try:
                        cr.rec = parse(toks)
                    except (ValueError, IndexError) as e:
                        cr.rec = {"error": "unparsable: %s: %s" % (e, " ".join(toks[:40]))}
        return out


def check_generated(ctx, gh, acc):
    """part C: generated pipelines: fused lazy == staged lazy == NumPy model (shape and every element), the route-vs-route
    rules for both. Returns (number of cases decided, crashes, per-pipeline table)."""
    res = gh.run(gh.cases, "asan", parse_pipe)
    ndone = ncrash = 0
    per = {}
    for ci, spec, cs in gh.plan:
        per[G.spec_key(spec)] = dict(G.describe(spec), cases=0, generated=len(cs))
    for cr in res:
        spec = cr.m.get("spec")
        if spec is None:
            ncrash += 1
            ctx.violation("gen:runner:crash_outside_case:%s" % cr.crash.kind(), "a generated pipeline program died outside a case: %s" % cr.crash.kind(),
                          dict(stderr=cr.crash.stderr[-2500:]))
            continue
        pre = G.key_prefix(spec)
        what = "%s %s" % (G.cls_name(spec), G.render(spec["t"], spec["k"]))
        det = dict(pipeline=G.describe(spec), spec=G.spec_key(spec), leaf_shapes=cr.m["leaf_shapes"], stage_args=cr.m["stage_args"], line=cr.line[:3000])
        if cr.crash is not None:
            ncrash += 1
            ctx.violation("%s:crash:%s" % (pre, cr.crash.kind()), "generated pipeline %s died on leaves %s args %s: %s" % (
                what, cr.m["leaf_shapes"], cr.m["stage_args"], cr.crash.kind()), dict(det, stderr=cr.crash.stderr[-2500:]))
            continue
        if cr.timeout:
            ctx.inconc("timeout in generated pipeline %s" % what)
            continue
        for (site, f0, f1) in V.hook_problems(cr, acc):
            if site == "eval_skip":
                ctx.violation("%s:eval_skip" % pre, "%s: an evaluator returned without writing its output (leaves %s args %s)" % (what, cr.m["leaf_shapes"], cr.m["stage_args"]), det)
        if cr.rec is None:
            continue
        raw = cr.raw or []
        if "EXC" in raw:
            k = raw.index("EXC")
            txt = " ".join(raw[k:k + 2])
            if "leaf-exceeds-capacity" in txt or "ERR" in raw:
                ctx.inconc("generator error in %s: %s" % (what, txt))
            else:
                ctx.violation("%s:exception" % pre, "generated pipeline %s threw %s on leaves %s args %s" % (what, txt[:160], cr.m["leaf_shapes"], cr.m["stage_args"]), det)
            continue
        if "error" in cr.rec:
            if "ERR" in raw:
                ctx.inconc("generator error in %s: %s" % (what, cr.rec["error"][:200]))
            else:
                ctx.violation("%s:malformed_record" % pre, cr.rec["error"][:300], det)
            continue
        ctx.ev()
        ndone += 1
        per[G.spec_key(spec)]["cases"] += 1
        F, Gs = cr.rec["F"], cr.rec["G"]
        exp = cr.m["exp"]
        if F is None or Gs is None or F["V"] is None or Gs["V"] is None:
            who = "fused" if (F is None or F["V"] is None) else "staged"
            ctx.violation("%s:nothing:%s" % (pre, who), "generated pipeline %s: the %s evaluation is Nothing for NumPy-valid arguments (leaves %s args %s)" % (
                what, who, cr.m["leaf_shapes"], cr.m["stage_args"]), det)
            continue
        approx = cr.m.get("approx")
        for nm_, rec in (("fused", F), ("staged", Gs)):
            check_routes(ctx, pre + ":" + nm_, rec, det)
            why = V.compare_np(rec["V"], exp, exact=not approx, rtol=2e-5, atol=cr.m.get("tol", 0.0))
            if why:
                ctx.violation("%s:%s:vs_numpy" % (pre, nm_), "generated pipeline %s (%s) on leaves %s args %s: %s" % (what, nm_, cr.m["leaf_shapes"], cr.m["stage_args"], why), det)
        same = V.same_array(F["V"], Gs["V"]) if not approx else (close_arrays(F["V"], Gs["V"], 4) or V.compare_np(F["V"], V.to_np(Gs["V"]), exact=False, rtol=2e-5, atol=cr.m.get("tol", 0.0)) is None)
        if not same:
            ctx.violation("%s:fused_vs_staged" % pre, "generated pipeline %s on leaves %s args %s: evaluating the view of views gives shape %s %s..., evaluating the inner views first gives shape %s %s..." % (
                what, cr.m["leaf_shapes"], cr.m["stage_args"], F["V"].get("shape"), (F["V"].get("data") or [])[:10], Gs["V"].get("shape"), (Gs["V"].get("data") or [])[:10]), det)
        if exp.size > 1:
            ctx.seen(("gen", G.spec_key(spec), cr.m["args"]))
    return ndone, ncrash, per


def run(ctx):
    acc = HookAcc()
    ncrash = 0
    per_mod = {}
    # ---- part A: re-read the value-level workloads
    for name, mod in value_modules():
        rng = ctx.rng.__class__(ctx.seed * 7919 + int(name[1:]))
        cases = cap_cases(rng, mod.gen_cases(rng, ctx.tier))
        parse = getattr(mod, "PARSE", V.parse_view_record)
        res = V.run_module_cases(mod.HARNESS, cases, "asan", parse=parse)
        nrec = 0
        for cr in res:
            op = cr.m["op"]
            det = dict(case={k: v for k, v in cr.m.items() if k not in ("args", "exp")}, line=cr.line)
            if cr.crash is not None:
                # a process death inside a single operation is decided by the module that owns the operation
                # (value oracle) and by C02 (memory safety); here it only means the routes could not be compared
                ncrash += 1
                continue
            if cr.timeout:
                ctx.inconc("timeout in %s" % cr.line[:200])
                continue
            for (site, f0, f1) in V.hook_problems(cr, acc):
                if site == "eval_skip":
                    ctx.violation("%s:eval_skip" % op, "%s: an evaluator returned without writing its output (shape mismatch) in %s" % (op, det["case"]), det)
            if cr.rec is None or "error" in cr.rec:
                continue
            for k, rec in enumerate(recs_of(cr.rec)):
                ctx.ev()
                nrec += 1
                check_routes(ctx, op, rec, det, tag="[%d]" % k if k else "")
                v = rec["V"]
                if v is not None and v.get("data") and len(v["data"]) > 1:
                    ctx.seen((op, cr.m["args"]))
        per_mod[name] = dict(cases=len(cases), records=nrec)
    # ---- part B: pipelines fused vs staged vs NumPy
    pcases = gen_pipes(ctx.rng, ctx.tier)
    res = V.run_module_cases(HARNESS, pcases, "asan", parse=parse_pipe)
    npipe = 0
    for cr in res:
        op = cr.m["op"]
        det = dict(case=dict(op=op, args=cr.m["args"]), line=cr.line)
        if cr.crash is not None:
            ncrash += 1
            ctx.violation("%s:crash:%s" % (op, cr.crash.kind()), "pipeline %s %s died: %s" % (op, cr.m["args"], cr.crash.kind()), dict(det, stderr=cr.crash.stderr[-2500:]))
            continue
        if cr.timeout:
            ctx.inconc("timeout in %s" % cr.line[:200])
            continue
        for (site, f0, f1) in V.hook_problems(cr, acc):
            if site == "eval_skip":
                ctx.violation("%s:eval_skip" % op, "%s: an evaluator returned without writing its output in pipeline %s" % (op, cr.m["args"]), det)
        if cr.rec is None:
            continue
        if "error" in cr.rec:
            ctx.violation("%s:malformed_record" % op, cr.rec["error"][:300], det)
            continue
        ctx.ev()
        npipe += 1
        F, Gs = cr.rec["F"], cr.rec["G"]
        exp = cr.m["exp"]
        if F is None or Gs is None or F["V"] is None or Gs["V"] is None:
            ctx.violation("%s:nothing" % op, "pipeline %s %s: %s is Nothing for NumPy-valid arguments" % (op, cr.m["args"], "fused" if (F is None or F["V"] is None) else "staged"), det)
            continue
        approx = cr.m.get("approx")
        for nm_, rec in (("fused", F), ("staged", Gs)):
            check_routes(ctx, op + ":" + nm_, rec, det)
            why = V.compare_np(rec["V"], exp, exact=not approx, rtol=2e-5, atol=1e-6)
            if why:
                ctx.violation("%s:%s:vs_numpy" % (op, nm_), "pipeline %s %s (%s): %s" % (op, cr.m["args"], nm_, why), det)
        same = V.same_array(F["V"], Gs["V"]) if not approx else close_arrays(F["V"], Gs["V"], 2)
        if not same:
            ctx.violation("%s:fused_vs_staged" % op, "pipeline %s %s: evaluating the view of a view gives shape %s %s..., evaluating the inner view first gives shape %s %s..." % (
                op, cr.m["args"], F["V"].get("shape"), (F["V"].get("data") or [])[:10], Gs["V"].get("shape"), (Gs["V"].get("data") or [])[:10]), det)
        if exp.size > 1:
            ctx.seen((op, cr.m["args"]))
        if len(ctx.samples) < 6 and exp.size > 3 and ctx.rng.random() < 0.02:
            ctx.sample(dict(pipeline=op, args=cr.m["args"], fused_shape=F["V"].get("shape"), staged_shape=Gs["V"].get("shape"), first=(F["V"].get("data") or [])[:6]))
    # ---- part C: generated pipelines (compile-probed allow-list), fused vs staged vs NumPy
    gh = GenHarness(ctx.tier, ctx.seed)
    sup = G.load_supported()
    if not gh.cases:
        ctx.inconc("no generated pipeline (empty allow-list vf/c10_supported.json?)")
        ngen, per_gen = 0, {}
    else:
        ngen, gcrash, per_gen = check_generated(ctx, gh, acc)
        ncrash += gcrash
    table = sorted(per_gen.values(), key=lambda e: (e["structure"], e["stages"]))
    classes = {}
    for e in table:
        classes[e["structure"]] = classes.get(e["structure"], 0) + 1
    ctx.rule = ("part A: every case of the value-level generators %s re-read through lazy/eval-row/eval-col(+raw buffer)/supplied-output routes; "
                "part B: %d pipeline cases over 16 hand-written pipelines (chains of 2 and 3, binary trees) with seeded NumPy-valid arguments, fused vs staged vs NumPy; "
                "part C: %d cases over %d GENERATED pipelines %s (deterministic core + VERIF_SEED-chosen translation units of the compile-probed allow-list), "
                "fused vs staged vs NumPy model + the route rules for both. "
                "distinct = (op, arguments) with more than one result element" % ([n for n, _ in value_modules()], len(pcases), ngen, len(table), classes))
    ctx.set("value_modules", per_mod)
    ctx.set("pipeline_cases", npipe)
    ctx.set("generated_pipeline_cases", ngen)
    ctx.set("generated_translation_units", len(gh.chunks))
    ctx.set("generated_pipelines", [dict(structure=e["structure"], stages=e["stages"], cases=e["cases"]) for e in table])
    ctx.set("generated_pipelines_without_cases", [e["stages"] for e in table if e["cases"] == 0])
    ctx.set("generated_allow_list", dict(stages=len(G.STAGES), supported=len(sup.get("supported", [])), rejected=len(sup.get("rejected", [])),
                                         excluded_pending_triage=G.exclusion_summary()))
    ctx.set("hook_events", acc.summary())
    ctx.set("crashes_contained", ncrash)
    if npipe == 0:
        ctx.inconc("no pipeline executed")
    if gh.cases and ngen == 0:
        ctx.inconc("no generated pipeline executed")
