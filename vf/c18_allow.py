PAIRS = {}
