"""C20: executable model of an array object and the decision procedure for recorded histories.

Model object = shape + list of cells in C order (None = value not determined by the history, e.g. after a successful
resize).  The real object is observed after every step through its public API (see harness/c20_hist.hpp `dump`).
"""
import itertools

import numpy as np

KIND_NAMES = ["cs_fb", "cs_hb", "cs_db", "fs_fb", "fs_hb", "fs_db", "hs_fb", "hs_hb", "hs_db", "ds_fb", "ds_hb", "ds_db",
              "ls_fb", "ls_hb", "ls_db", "fixed", "hybrid", "dynamic"]
DTYPES = [("f4", np.float32), ("f8", np.float64), ("i8", np.int64), ("i2", np.int16), ("u1", np.uint8)]
NP_OF = {"i4": np.int32, "f8": np.float64, "f4": np.float32, "i8": np.int64, "i2": np.int16, "u1": np.uint8}


def prod(s):
    p = 1
    for e in s:
        p *= e
    return p


def c_strides(shape):
    s, p = [], 1
    for e in reversed(shape):
        s.append(p)
        p *= e
    return list(reversed(s))


def offsets(shape, layout):
    """flat buffer offset of every index, listed in C order of the indices"""
    n = prod(shape)
    if layout == "row":
        return list(range(n))
    return np.arange(n).reshape(shape[::-1]).transpose().flatten().tolist() if n else []


class Dump:
    """one observation of an object"""

    def __init__(self, t):
        self.etag = t.s()
        self.dim = t.i()
        self.shape = t.vec()
        self.mshape = t.vec()
        self.strides = t.vec()
        self.size = t.i()
        self.msize = t.i()
        self.buflen = t.i()
        self.safe = t.i() == 1
        self.elems = None
        self.packed = None
        if self.safe:
            n = t.i()
            self.elems = [t.num(self.etag) for _ in range(n)]
            n2 = t.i()
            self.packed = [t.num(self.etag) for _ in range(n2)] if n2 else None
        nraw = t.i()
        self.raw = [t.num(self.etag) for _ in range(nraw)]

    def key(self):
        return (self.dim, tuple(self.shape), tuple(self.mshape), tuple(self.strides), self.size, self.msize, self.buflen,
                self.safe, tuple(self.elems or ()), tuple(self.raw))

    def brief(self):
        return "dim=%d shape=%s strides=%s size=%d buflen=%d elems=%s raw=%s" % (
            self.dim, self.shape, self.strides, self.size, self.buflen, (self.elems or [])[:16], self.raw[:16])


def invariants(d, cls, layout, fixed_numel=None):
    """-> list of (symptom, text) violated by one observation (independent of the history)"""
    bad = []
    if cls == "dynamic" and d.dim == 0 and d.buflen == 0:
        return bad      # default-constructed dynamic_ndarray: no shape yet, nothing to hold (noted in the findings)
    if not (d.dim == len(d.shape) == len(d.mshape) == len(d.strides)) or d.shape != d.mshape:
        bad.append(("dim_shape_strides_disagree", "dim()=%d shape=%s member shape=%s strides=%s" % (d.dim, d.shape, d.mshape, d.strides)))
        return bad
    n = prod(d.shape)
    if d.size != n or (d.msize >= 0 and d.msize != n):
        bad.append(("size_ne_product", "size()=%d/%d but product(shape %s)=%d" % (d.size, d.msize, d.shape, n)))
    if cls == "hybrid":
        if n > d.buflen:
            bad.append(("buffer_ne_product", "product(shape %s)=%d exceeds the buffer (%d)" % (d.shape, n, d.buflen)))
    elif d.buflen != n:
        bad.append(("buffer_ne_product", "len(buffer)=%d but product(shape %s)=%d" % (d.buflen, d.shape, n)))
    if fixed_numel is not None and d.buflen != fixed_numel:
        bad.append(("buffer_ne_product", "fixed buffer of %d cells reports %d" % (fixed_numel, d.buflen)))
    if d.strides != c_strides(d.shape):
        bad.append(("strides_ne_shape", "strides()=%s but shape %s has strides %s" % (d.strides, d.shape, c_strides(d.shape))))
    if not d.safe:
        if not bad:
            bad.append(("unreadable", "object not readable: " + d.brief()))
        return bad
    if d.packed is not None and d.packed != d.elems:
        bad.append(("packed_ne_variadic", "a(i,j,k) reads %s, a(index array) reads %s" % (d.elems[:16], d.packed[:16])))
    off = offsets(d.shape, layout)
    if len(d.raw) >= n:
        via = [d.raw[o] for o in off]
        if via != d.elems:
            bad.append(("buffer_layout", "%s-major buffer %s does not hold a(i...)=%s at offset(i) (shape %s)" % (layout, d.raw[:16], d.elems[:16], d.shape)))
    return bad


class Obj:
    def __init__(self, shape, cells):
        self.shape = list(shape)
        self.cells = list(cells)

    def copy(self):
        return Obj(self.shape, self.cells)

    def known(self):
        return all(c is not None for c in self.cells)


def flat_pos(shape, idx):
    p = 0
    for e, i in zip(shape, idx):
        p = p * e + i
    return p


def convert(vals, src_tag, dst_tag):
    """numpy astype, used only on values for which the C++ conversion is defined"""
    return np.array(vals, dtype=NP_OF[src_tag]).astype(NP_OF[dst_tag]).tolist()


def all_indices(shape):
    return list(itertools.product(*[range(e) for e in shape]))
