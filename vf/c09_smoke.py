"""Smoke test of generator + oracle + call expression of (new) operations on their fully dynamic configuration only:
   python3-vt -m vf.c09_smoke op1,op2 | wave2        (flavor o0: fast to compile; no allow-list needed)"""
import random
import sys

from . import build as B
from . import run as R
from . import c09_gen as G
from . import c09_run as CR
from .util import split_hooks

DYN = {"ds_db", "dy", "rt", "tt", "b", "none"}


def dyn_cfg(o):
    for c in G.candidates(o):
        if c != "cx" and all(k in DYN for k in G.cfg_kinds(c).split("|")) and ":size_t" not in c and ":long" not in c:
            return c
    return None


def main(argv):
    from . import c09_ops2 as O
    names = O.WAVE2 if argv[0] == "wave2" else argv[0].split(",")
    flavor = argv[1] if len(argv) > 1 else "o0"
    progs = []
    for n in names:
        o = G.OPS[n]
        c = dyn_cfg(o)
        groups = []
        for k, d in enumerate(o.dims):
            rng = random.Random("smoke/%s/%s" % (n, d))
            groups.append(G.make_group(k, o, rng, [c], 1, 10**6, dims=d, all_cfgs=True))
        progs.append(G.Program("c09_smoke_%s" % n, groups))
    tl = [p.target(flavor) for p in progs]
    CR.prewrite_sources(tl)
    res = B.build(tl)
    nbad = 0
    for p, t in zip(progs, res):
        if t.error:
            print("COMPILE-FAIL", p.name, [l for l in t.error.split("\n") if "error" in l][:3])
            nbad += 1
            continue
        cases, meta = [], {}
        for g in p.groups:
            vs, _ = CR.value_sets(g, random.Random("smokev/%s/%s" % (p.name, g.gid)), 40, 100)
            for v, why in vs:
                for inst in g.insts:
                    if g.admits(inst, v):
                        cid = str(len(cases))
                        cases.append((cid, "%s %s %s" % (cid, inst.name, g.case_tokens(v))))
                        meta[cid] = (g, v)
        results, crashes, touts = R.run_cases(t.binary, cases)
        crashed = {c.case_id: c for c in crashes}
        bad = {}
        ok = 0
        for cid, line in cases:
            g, v = meta[cid]
            exp = CR.expected_of_vals(g, v)
            if cid in crashed:
                bad.setdefault("crash " + crashed[cid].kind(), (v, exp, None))
                continue
            if cid not in results:
                bad.setdefault("norecord", (v, exp, None))
                continue
            toks, _ = split_hooks(results[cid])
            if CR.has_exc(toks):
                if exp != G.NOTHING:
                    bad.setdefault("exc " + " ".join(toks[toks.index("EXC"):][:3]), (v, exp, None))
                continue
            try:
                if g.op.family == "view":
                    pr = CR.parse_view_record(toks)
                    got = [CR.arr_norm(pr["v"]), CR.arr_norm(pr["e"])]
                else:
                    pr = CR.parse_index_record(toks)
                    got = [CR.normalise(g.op, pr[0])]
            except Exception as e:
                bad.setdefault("parse %s" % e, (v, exp, " ".join(toks[:30])))
                continue
            if all(CR.same_result(exp, x, g.op.tol) for x in got):
                ok += 1
            else:
                bad.setdefault("differs dims=%s" % (g.dims,), (v, exp, got))
        print("%-24s ok %4d / %4d  %s" % (p.name[10:], ok, len(cases), "" if not bad else "BAD"))
        for k, (v, exp, got) in bad.items():
            nbad += 1
            print("     %s: %s\n        expected %s\n        got      %s" % (k, {a: (b["shape"] if isinstance(b, dict) else b) for a, b in v.items()}, str(exp)[:300], str(got)[:300]))
    return 1 if nbad else 0


if __name__ == "__main__":
    sys.exit(main(sys.argv[1:]))
