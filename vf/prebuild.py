"""Pre-build every harness binary the quick checks need (content-addressed cache)."""
import glob
import os
import sys

from . import build as B
from .targets import quick_targets


def main():
    ts = quick_targets()
    res = B.build(ts)
    bad = [t for t in res if t.error]
    for t in bad:
        sys.stderr.write("FAILED %s[%s]\n%s\n" % (t.name, t.flavor, t.error[-2000:]))
    print("prebuilt %d targets (%d failed)" % (len(res), len(bad)))
    # Setup only warms the cache.  A generated type-level program (C09/C11) may legitimately fail here: the check itself
    # drops value-dependent constant configurations and rebuilds; a hand-written harness that does not compile makes its
    # check inconclusive (exit 2) when it runs.  Neither is a reason to fail the setup step.
    return 0


if __name__ == "__main__":
    sys.exit(main())
