"""Pre-build every harness binary the quick checks need (content-addressed cache)."""
import glob
import os
import sys

from . import build as B
from .targets import quick_targets


def main():
    ts = quick_targets()
    res = B.build(ts)
    bad = [t for t in res if t.error]
    for t in bad:
        sys.stderr.write("FAILED %s[%s]\n%s\n" % (t.name, t.flavor, t.error[-2000:]))
    print("prebuilt %d targets (%d failed)" % (len(res), len(bad)))
    return 1 if bad else 0


if __name__ == "__main__":
    sys.exit(main())
