import importlib
import os
import sys
import traceback

from .core import Ctx, Inconclusive


def main(argv):
    if len(argv) < 2:
        print("usage: check <Cxx> quick|thorough")
        return 2
    pid = argv[0].upper()
    tier = argv[1]
    if tier not in ("quick", "thorough"):
        print("tier must be quick or thorough")
        return 2
    os.environ["VERIF_TIER"] = tier
    seed = int(os.environ.get("VERIF_SEED", "0") or 0)
    ctx = Ctx(pid, tier, seed)
    try:
        mod = importlib.import_module("vf.checks." + pid.lower())
    except ModuleNotFoundError:
        print("no check for", pid)
        return 2
    try:
        mod.run(ctx)
    except Inconclusive as e:
        ctx.inconc(str(e))
    except Exception:
        traceback.print_exc()
        ctx.inconc("harness exception: " + traceback.format_exc()[-800:].replace("\n", " | "))
    return ctx.finish()


if __name__ == "__main__":
    sys.exit(main(sys.argv[1:]))
