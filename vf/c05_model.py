"""C05 helpers: slice-part model, argument classes, case-line formatting, NumPy/Python oracles.

A part is ('I', v) | ('E',) | ('R', start, stop, step) with None for an omitted component.
A *type code* says which C++ type carries the part in the harness:
  'I' int, 'E' ellipsis_t, 'ii','in','ni','nn' 2-tuples, 'iii'..'nnn' 3-tuples ('n' = none_t position),
  'a3' / 'a2' nmtools_array<int,3|2>.
"""
import itertools

import numpy as np

RANGE_CODES = ["ii", "in", "ni", "nn", "iii", "iin", "ini", "inn", "nii", "nin", "nni", "nnn"]
ALIAS = {"R": "iii", "Rn": "nn", "Ra": "in", "Rb": "ni", "Rc": "nni", "Rd": "ini", "Re": "nii", "Rf": "ii",
         "Rg": "iin", "Rh": "nin", "Ri": "inn", "Rj": "nnn", "I": "I", "E": "E"}
STEPS = [-3, -2, -1, 1, 2, 3]


def given(code):
    """(start given, stop given, step given) for a range type code"""
    if code == "a3":
        return (True, True, True)
    if code == "a2":
        return (True, True, False)
    g = [c == "i" for c in code]
    if len(g) == 2:
        g.append(False)
    return tuple(g)


def sig(code):
    """None-signature of a range code: 2-tuples and 3-tuples with a None step are the same argument class"""
    return "".join("i" if x else "n" for x in given(code))


def axis_grid(code, n, margin=2, steps=STEPS):
    """every (start, stop, step) the type code can carry with start/stop in [-(n+margin), n+margin]"""
    gs, ge, gst = given(code)
    rng = list(range(-(n + margin), n + margin + 1))
    for s in (rng if gs else [None]):
        for e in (rng if ge else [None]):
            for st in (steps if gst else [None]):
                yield (s, e, st)


def py_axis(n, s, e, st):
    return list(range(*slice(s, e, st).indices(n)))


def cls_start(s, n):
    if s is None:
        return "N"
    return "lo" if s < -n else "neg" if s < 0 else "pos" if s < n else "hi"


def cls_stop(e, n):
    if e is None:
        return "N"
    return "lo" if e < -n else "neg" if e < 0 else "pos" if e <= n else "hi"


def cls_step(st):
    if st is None:
        return "N"
    return ("p" if st > 0 else "m") + ("1" if abs(st) == 1 else "k")


def axis_class(n, s, e, st):
    """finite partition of one axis' arguments: which of start/stop/step are given x sign x in/out of range x
    step sign x empty/non-empty expected result"""
    nexp = len(range(*slice(s, e, st).indices(n)))
    return "start_%s.stop_%s.step_%s.%s" % (cls_start(s, n), cls_stop(e, n), cls_step(st), "empty" if not nexp else "nonempty")


def tok3(part):
    if part[0] == "I":
        return "%d 0 0" % part[1]
    if part[0] == "E":
        return "0 0 0"
    return "%d %d %d" % tuple(0 if x is None else x for x in part[1:4])


KIND_NUM = {"I": 0, "E": 1, "R": 2}


def fmt_parts_packed(parts):
    return " ".join(tok3(p) for p in parts)


def fmt_parts_dyn(parts):
    return "%d %s" % (len(parts), " ".join("%d %s" % (KIND_NUM[p[0]], tok3(p)) for p in parts)) if parts else "0"


def np_index(parts):
    out = []
    for p in parts:
        if p[0] == "I":
            out.append(int(p[1]))
        elif p[0] == "E":
            out.append(Ellipsis)
        else:
            out.append(slice(p[1], p[2], p[3]))
    return tuple(out)


def expected_view(shape, parts, label0=100):
    """NumPy basic indexing on the label array -> ndarray (possibly 0-d)"""
    n = int(np.prod(shape)) if len(shape) else 1
    lab = (np.arange(n, dtype=np.int64) + label0).reshape(shape)
    return lab[np_index(parts)]


def expected_offsets(shape, parts):
    n = int(np.prod(shape)) if len(shape) else 1
    off = np.arange(n, dtype=np.int64).reshape(shape)
    return off[np_index(parts)]


def unravel(off, shape):
    out = []
    for e in reversed(shape):
        out.append(off % e)
        off //= e
    return list(reversed(out))


def structure(parts):
    return ".".join(p[0] for p in parts)


def op_codes(opname):
    """'m_Rc_Ra_Rb' -> ['nni','in','ni'];  'p_iii_i' handled by the caller"""
    return [ALIAS[t] for t in opname.split("_")[1:]]


def parts_valid_dim(parts, dim):
    """number of source axes consumed must equal dim (ellipsis absorbs the rest, possibly zero)"""
    k = sum(1 for p in parts if p[0] != "E")
    ne = sum(1 for p in parts if p[0] == "E")
    if ne > 1:
        return False
    return k <= dim if ne else k == dim


def random_part(rng, code, n, margin=2):
    if code == "I":
        return ("I", rng.randrange(-n, n))
    if code == "E":
        return ("E",)
    gs, ge, gst = given(code)
    lo, hi = -(n + margin), n + margin
    s = rng.randint(lo, hi) if gs else None
    e = rng.randint(lo, hi) if ge else None
    st = rng.choice(STEPS) if gst else None
    return ("R", s, e, st)


def assign_extents(rng, codes, maxdim=3, maxext=4, dim=None, shape=None):
    """choose a source shape for a type pattern; returns (shape, per-part extent or None for the ellipsis)"""
    k = sum(1 for c in codes if c != "E")
    has_e = "E" in codes
    if dim is None:
        dim = rng.randint(max(k, 1), max(k, maxdim)) if has_e else k
    if shape is None:
        shape = [rng.randint(1, maxext) for _ in range(dim)]
    ext = []
    pos = 0
    for c in codes:
        if c == "E":
            ext.append(None)
            pos += dim - k
        else:
            ext.append(shape[pos])
            pos += 1
    return shape, ext


def ellipsis_class(parts, dim):
    """what the ellipsis of a multi-axis index stands for"""
    pos = [i for i, p in enumerate(parts) if p[0] == "E"]
    if not pos:
        return "no_ellipsis"
    k = len(parts) - 1
    if dim > k:
        return "ellipsis_some_axes"
    i = pos[0]
    if i == len(parts) - 1:
        return "ellipsis_zero_axes_trailing"
    return "ellipsis_zero_axes_leading" if i == 0 else "ellipsis_zero_axes_middle"


def sig_to_code(part):
    """range part -> the 3-tuple type code with the same None-signature (2-tuples share the class of '..n')"""
    return "".join("n" if x is None else "i" for x in part[1:4])
