"""Content-addressed build cache for harness binaries.

A binary is identified by sha1(flags + source text + contents of every file it
includes from the repository / the harness directory).  The dependency list of a
(source, flavour) pair is remembered from its previous compilation (gcc -MD); if
all files in that list have the contents a cached binary was built from, the
compiler would read exactly the same bytes again, so the cached binary is the
binary of the current working tree.  Anything else is recompiled.
"""
import hashlib
import threading
import json
import os
import subprocess
import sys
import time
from concurrent.futures import ThreadPoolExecutor

VERIF = os.path.dirname(os.path.dirname(os.path.abspath(__file__)))
REPO = os.environ.get("VERIF_REPO", "/repo")
BUILD = os.environ.get("VERIF_BUILD", os.path.join(VERIF, ".build"))
HARNESS = os.path.join(VERIF, "harness")
JOBS = int(os.environ.get("VERIF_JOBS", "16"))

COMMON = ["-std=c++17", "-g", "-fno-omit-frame-pointer", "-DNMTOOLS_VERIF",
          "-Wall", "-Wextra", "-Wno-unused-parameter"]

FLAVORS = {
    # default: ASan + UBSan + libstdc++ assertions, asserts of the library on
    "asan": dict(cxx="g++", flags=["-O1", "-fsanitize=address,undefined",
                                   "-fno-sanitize-recover=all", "-D_GLIBCXX_ASSERTIONS"]),
    # configuration the baseline ships: asserts compiled out
    "asan-ndebug": dict(cxx="g++", flags=["-O1", "-fsanitize=address,undefined",
                                          "-fno-sanitize-recover=all", "-D_GLIBCXX_ASSERTIONS",
                                          "-DNDEBUG"]),
    "clang": dict(cxx="clang++-14", flags=["-O1", "-fsanitize=address,undefined",
                                           "-fno-sanitize=object-size",
                                           "-fno-sanitize-recover=all",
                                           "-Wno-gnu-string-literal-operator-template",
                                           "-Wno-unused-local-typedef",
                                           "-Wno-unused-lambda-capture"]),
    "nostl": dict(cxx="g++", flags=["-O1", "-fsanitize=address,undefined",
                                    "-fno-sanitize-recover=all", "-D_GLIBCXX_ASSERTIONS",
                                    "-DNMTOOLS_DISABLE_STL"]),
    "tsan": dict(cxx="g++", flags=["-O1", "-fsanitize=thread", "-pthread"]),
    "plain": dict(cxx="g++", flags=["-O1"]),
    "o0": dict(cxx="g++", flags=["-O0"]),
    "simd": dict(cxx="g++", flags=["-O1", "-fsanitize=address,undefined",
                                   "-fno-sanitize-recover=all", "-D_GLIBCXX_ASSERTIONS",
                                   "-mavx2", "-mfma", "-mavx512f", "-mavx512dq", "-mavx512bw",
                                   "-mavx512vl"]),
}


def _sha(b):
    return hashlib.sha1(b).hexdigest()


_file_hash_cache = {}


def file_hash(path):
    try:
        st = os.stat(path)
    except OSError:
        return "missing"
    k = (path, st.st_mtime_ns, st.st_size)
    h = _file_hash_cache.get(k)
    if h is None:
        with open(path, "rb") as f:
            h = _sha(f.read())
        _file_hash_cache[k] = h
    return h


def _mtime(path):
    try:
        return os.stat(path).st_mtime
    except OSError:
        return 0.0


def _tracked(path):
    p = os.path.realpath(path)
    return p.startswith(os.path.realpath(REPO) + os.sep) or p.startswith(os.path.realpath(VERIF) + os.sep)


def _parse_depfile(path):
    with open(path) as f:
        txt = f.read()
    txt = txt.replace("\\\n", " ")
    deps = []
    for line in txt.splitlines():
        if ":" in line:
            line = line.split(":", 1)[1]
        deps += line.split()
    out = []
    seen = set()
    for d in deps:
        d = os.path.normpath(d)
        if d not in seen and _tracked(d):
            seen.add(d)
            out.append(d)
    return sorted(out)


class Target:
    def __init__(self, src, flavor, extra_flags=(), name=None, text=None):
        """src: path of a .cpp file (or a virtual name if text is given: generated source)."""
        self.src = src
        self.flavor = flavor
        self.extra = list(extra_flags)
        self.text = text
        base = name or os.path.splitext(os.path.basename(src))[0]
        self.name = base
        self.binary = None
        self.error = None
        self.compiled = False
        self.seconds = 0.0

    def cmd_flags(self):
        fl = FLAVORS[self.flavor]
        return [fl["cxx"]] + COMMON + fl["flags"] + self.extra + ["-isystem", os.path.join(REPO, "include"), "-I", HARNESS]

    def ident(self):
        return _sha((self.flavor + "\0" + self.name + "\0" + " ".join(self.extra) + "\0" + os.path.realpath(REPO)).encode())[:16]


def _key(t, deps, srctext):
    h = hashlib.sha1()
    h.update(" ".join(t.cmd_flags()).replace(os.path.realpath(REPO), "$REPO").encode())
    h.update(b"\0")
    h.update(srctext)
    for d in deps:
        h.update(os.path.relpath(d, REPO if d.startswith(os.path.realpath(REPO)) else VERIF).encode())
        h.update(file_hash(d).encode())
    return h.hexdigest()


def _build_one(t):
    os.makedirs(os.path.join(BUILD, "bin"), exist_ok=True)
    os.makedirs(os.path.join(BUILD, "deps"), exist_ok=True)
    os.makedirs(os.path.join(BUILD, "gen"), exist_ok=True)
    if t.text is not None:
        srctext = t.text.encode()
        srcpath = os.path.join(BUILD, "gen", t.name + "_" + _sha(srctext)[:12] + ".cpp")
        if not os.path.exists(srcpath):
            tmp = srcpath + ".tmp%d_%d" % (os.getpid(), threading.get_ident())
            with open(tmp, "wb") as f:
                f.write(srctext)
            os.replace(tmp, srcpath)
    else:
        srcpath = t.src
        with open(srcpath, "rb") as f:
            srctext = f.read()
    depsfile = os.path.join(BUILD, "deps", t.ident() + ".json")
    deps = None
    if os.path.exists(depsfile):
        try:
            deps = json.load(open(depsfile))
        except Exception:
            deps = None
    if deps is not None:
        key = _key(t, deps, srctext)
        binpath = os.path.join(BUILD, "bin", key)
        if os.path.exists(binpath):
            t.binary = binpath
            try:
                os.utime(binpath)
            except OSError:
                pass
            return t
    # compile
    tmpbin = os.path.join(BUILD, "bin", "tmp_%s_%d_%d" % (t.ident(), os.getpid(), threading.get_ident()))
    tmpdep = tmpbin + ".d"
    cmd = t.cmd_flags() + ["-MD", "-MF", tmpdep, srcpath, "-o", tmpbin]
    t0 = time.time()
    p = subprocess.run(cmd, stdout=subprocess.PIPE, stderr=subprocess.STDOUT, text=True)
    t.seconds = time.time() - t0
    t.compiled = True
    if p.returncode != 0:
        t.error = p.stdout[-6000:]
        for f in (tmpbin, tmpdep):
            if os.path.exists(f):
                os.remove(f)
        return t
    deps = [d for d in _parse_depfile(tmpdep) if os.path.realpath(d) != os.path.realpath(srcpath)]
    os.remove(tmpdep)
    key = _key(t, deps, srctext)
    # a header edited while the compiler was running would give a binary of the old contents stored under the new key:
    # files modified after the compilation started make the result untrustworthy -> compile again (bounded)
    changed = [d for d in deps if _mtime(d) >= t0 - 1.0]
    if changed and getattr(t, "_retries", 0) < 2:
        t._retries = getattr(t, "_retries", 0) + 1
        os.remove(tmpbin)
        time.sleep(1.5)
        return _build_one(t)
    binpath = os.path.join(BUILD, "bin", key)
    os.replace(tmpbin, binpath)
    tmpd = depsfile + ".tmp%d_%d" % (os.getpid(), threading.get_ident())
    with open(tmpd, "w") as f:
        json.dump(deps, f)
    os.replace(tmpd, depsfile)
    t.binary = binpath
    return t


def build(targets, quiet=False):
    """Build all targets in parallel; returns list of targets (binary or error set)."""
    t0 = time.time()
    with ThreadPoolExecutor(max_workers=JOBS) as ex:
        res = list(ex.map(_build_one, targets))
    n = sum(1 for t in res if t.compiled)
    if not quiet:
        sys.stderr.write("[build] %d targets, %d compiled, %.1fs\n" % (len(res), n, time.time() - t0))
    _purge()
    return res


def _purge(limit_bytes=12 << 30):
    d = os.path.join(BUILD, "bin")
    try:
        ents = [(os.stat(os.path.join(d, f)).st_atime, os.stat(os.path.join(d, f)).st_size, os.path.join(d, f)) for f in os.listdir(d)]
    except OSError:
        return
    tot = sum(e[1] for e in ents)
    if tot <= limit_bytes:
        return
    ents.sort()
    now = time.time()
    for at, sz, p in ents:
        if tot <= limit_bytes * 0.7:
            break
        if now - at < 3600:
            continue
        try:
            os.remove(p)
            tot -= sz
        except OSError:
            pass
