"""Generator of the type-level programs shared by C09 and C11.

A *program* is one generated C++ translation unit.  It consists of *groups*; a group is one library
operation with one argument signature (number of dimensions of every shape-like argument, which optional
arguments are None) and a list of *configurations*.  A configuration says, for every argument, which
container kind carries it:

  index arrays  ct   nmtools_tuple<meta::ct<2>,meta::ct<3>>{}                 (compile-time constant)
                lit  nmtools_tuple{2_ct,"-1"_ct}                               (literal constants)
                clt  nmtools_tuple<clipped_size_t<M0>,clipped_size_t<M1>>      (clipped, per element bound)
                cla  nmtools_array<clipped_size_t<M>,N>                        (clipped, fixed length)
                clv  nmtools_static_vector<clipped_size_t<M>,CAP>              (clipped, bounded length)
                fx   nmtools_array<T,N>          raw  T[N]          tp  nmtools_tuple<T,...> (run-time)
                sv   nmtools_static_vector<T,CAP>   hy  hybrid_ndarray<T,CAP,1>
                svt  nmtools_static_vector<T,N>  (TIGHT bound: capacity == length of the baked value; deterministic core only)
                dy   nmtools_list<T>             mdy  nmtools_maybe<nmtools_list<T>>  mfx nmtools_maybe<nmtools_array<T,N>>
  index scalars ct / lit / cl (clipped_size_t<M>) / rt (T) / none / tt (true_type/false_type) / b (bool)
  arrays        the 15 ndarray_t kinds {c,f,h,d,l}s_{f,h,d}b via nmtools::cast(raw, kind::ndarray_X), their
                column-major twins (cm_X), raw T[..][..], nested nmtools_array, fixed_ndarray, hybrid_ndarray,
                dynamic_ndarray
  cx            every argument a constexpr object and the call itself evaluated in a constant expression

Every configuration of a group is a VH_OP of the runner: it reads the *values* of all arguments from the case
line, builds the containers of its kinds from them, calls the library and prints the normalised result plus
the static traits of the result type.  Values of compile-time-constant arguments are baked in (drawn from the
seed); such a configuration is instantiated once per baked value set and is only run on that value set.
Run-time kinds are run on many value sets from the case file (one compilation, thousands of cases).

Which (operation, configuration) combinations the library supports at all is NOT guessed: it is read from the
committed allow-list vf/c09_supported.json, produced once by compile-probing the unchanged tree
(`python3-vt -m vf.c09_gen probe`).  Nothing outside the list is generated.
"""
import itertools
import json
import os
import random
import sys

import numpy as np

from . import build as B

SUPPORTED_JSON = os.path.join(B.VERIF, "vf", "c09_supported.json")
FLAVORS = ("asan", "clang", "nostl")

EXT = 4          # extents of run-time shapes are 1..EXT unless an operation says otherwise
CAP = 6          # capacity of bounded containers

# ----------------------------------------------------------------------------------------------------
# argument kinds
# ----------------------------------------------------------------------------------------------------

CONST_KINDS = ("ct", "lit")
CLIPPED_KINDS = ("clt", "cla", "clv")
FIXEDLEN_KINDS = ("fx", "raw", "tp", "mfx", "cla", "clt")
BOUNDED_KINDS = ("sv", "hy", "clv", "svt")
DYN_KINDS = ("dy", "mdy")

CTYPE = {"int": "int", "size_t": "nm_size_t", "long": "long", "unsigned": "unsigned", "i8": "nmtools::int8_t",
         "u8": "nmtools::uint8_t", "i16": "nmtools::int16_t"}
TRANGE = {"int": (-2**31, 2**31 - 1), "size_t": (0, 2**63), "long": (-2**63, 2**63 - 1), "unsigned": (0, 2**32 - 1),
          "i8": (-128, 127), "u8": (0, 255), "i16": (-2**15, 2**15 - 1)}


def ct_expr(v):
    return "meta::ct<%d>" % v


def lit_expr(v):
    if v >= 0:
        return "%d_ct" % v
    return '"%d"_ct' % v


def lit_ok(v):
    return v >= 0 or -9 <= v <= -1


def clipped_type(mx, mn=0):
    # clipped_integer_t requires Min < Max
    if mn < 0:
        return "nm::clipped_int64_t<%d,%d>" % (max(mx, mn + 1), mn)
    return "nm::clipped_size_t<%d>" % max(mx, 1)


def clipped_vtype(mn):
    return "nmtools::int64_t" if mn < 0 else "nm_size_t"


class IA:
    """index-array argument"""
    typ = "ia"

    def __init__(self, name, signed=False, optional=False, lo=0, placeholder=False):
        self.name = name
        self.signed = signed
        self.optional = optional
        self.lo = lo        # smallest value the operation admits for an element (for clipped Min)
        # reshape's destination: the library reads a clipped element with a negative minimum as "the -1 placeholder"
        # (like its own "-1:[1]"_ct); so a clipped element is typed by the sign of the baked value and keeps that sign
        self.placeholder = placeholder


class IS:
    """index-scalar argument"""
    typ = "is"

    def __init__(self, name, signed=False, optional=False, boolean=False, lo=0):
        self.name = name
        self.signed = signed
        self.optional = optional
        self.boolean = boolean
        self.lo = lo


class ARR:
    """array operand; value = dict(shape=[..], base=int)"""
    typ = "arr"

    def __init__(self, name):
        self.name = name


class ArgCfg:
    """kind of one argument inside a configuration.  text form: kind[:T]"""

    def __init__(self, kind, T=None):
        self.kind = kind
        self.T = T

    def __str__(self):
        return self.kind if self.T is None else "%s:%s" % (self.kind, self.T)

    @staticmethod
    def parse(s):
        if ":" in s:
            k, t = s.split(":", 1)
            return ArgCfg(k, t)
        return ArgCfg(s)


def cfg_str(cfg):
    return "|".join(str(a) for a in cfg)


def cfg_parse(s):
    return [ArgCfg.parse(x) for x in s.split("|")]


def cfg_kinds(s):
    """configuration without the element types (used in violation keys)"""
    return "|".join(x.split(":")[0] for x in s.split("|"))


KIND_CLASS = {"ct": "const", "lit": "const", "tt": "const", "clt": "clipped", "cla": "clipped", "clv": "clipped", "cl": "clipped",
              "fx": "fixed", "raw": "fixed", "tp": "fixed", "mfx": "maybe", "mdy": "maybe", "sv": "bounded", "hy": "bounded", "svt": "bounded",
              "dy": "dynamic", "rt": "runtime", "b": "runtime", "none": "none", "cx": "constexpr"}


def cfg_class(s):
    """coarse class signature of a configuration (used in violation keys so that one defect = few keys)"""
    out = []
    for x in s.split("|"):
        k = x.split(":")[0]
        out.append(KIND_CLASS.get(k, k))
    return "|".join(out)


# ----------------------------------------------------------------------------------------------------
# C++ emission of one argument
# ----------------------------------------------------------------------------------------------------

ND_KINDS = ["cs_fb", "cs_hb", "cs_db", "fs_fb", "fs_hb", "fs_db", "hs_fb", "hs_hb", "hs_db",
            "ds_fb", "ds_hb", "ds_db", "ls_fb", "ls_hb", "ls_db"]
ARR_OTHER = ["raw", "nested", "fixed_nd", "hybrid_nd", "dynamic_nd"]
ARR_KINDS = ND_KINDS + ["cm_" + k for k in ND_KINDS] + ARR_OTHER


def arr_admits(kind, S, shape):
    """does the array type of `kind` derived from the template shape S admit the run-time shape?"""
    S = list(S)
    shape = list(shape)
    pS = int(np.prod(S))
    p = int(np.prod(shape))
    if kind.startswith("cm_"):
        kind = kind[3:]
    if kind in ("raw", "nested", "fixed_nd"):
        return shape == S
    if kind == "hybrid_nd":
        return len(shape) == len(S) and p <= pS
    if kind == "dynamic_nd":
        return True
    sk, bk = kind.split("_")
    if bk == "fb" and p != pS:
        return False
    if bk == "hb" and p > pS:
        return False
    if sk == "cs":
        return shape == S
    if sk == "fs":
        return len(shape) == len(S)
    if sk == "hs":
        return len(shape) <= len(S) and len(shape) >= 1
    if sk == "ds":
        return len(shape) >= 1
    if sk == "ls":
        return len(shape) == len(S) and all(a <= b for a, b in zip(shape, S))
    raise ValueError(kind)


def arr_freedom(kind):
    k = kind[3:] if kind.startswith("cm_") else kind
    if k in ("raw", "nested", "fixed_nd") or k.startswith("cs_"):
        return "none"
    return "shape"


class Emit:
    """collects the C++ statements of one VH_OP body"""

    def __init__(self):
        self.lines = []

    def add(self, s):
        self.lines.append(s)


def emit_ia(e, a, ac, name, vec, vals, sig):
    """emit construction of index array `name` of kind ac from run-time vector `vec`;
    vals = baked values (used by constant kinds), sig = dict(n=len, mx=[..] per-element clipped maxima)."""
    k = ac.kind
    T = CTYPE.get(ac.T or "int")
    if vals is None:
        e.add("const auto %s = nm::None;" % name)
        return
    n = sig["n"]
    if k == "ct":
        e.add("const auto %s = nmtools_tuple<%s>{};" % (name, ",".join(ct_expr(v) for v in vals)))
    elif k == "lit":
        e.add("const auto %s = nmtools_tuple{%s};" % (name, ",".join(lit_expr(v) for v in vals)))
    elif k == "clt":
        if a.placeholder:
            tys = ["nm::clipped_integer_t<int,-1,1>" if v < 0 else clipped_type(m, 0) for v, m in zip(vals, sig["mx"])]
            vts = ["int" if v < 0 else "nm_size_t" for v in vals]
        else:
            tys = [clipped_type(m, a.lo) for m in sig["mx"]]
            vts = [clipped_vtype(a.lo)] * n
        e.add("if (%s.size() != %d) { out.tok(\"SKIP\"); return; }" % (vec, n))
        e.add("const auto %s = nmtools_tuple<%s>{%s};" % (
            name, ",".join(tys), ",".join("%s((%s)%s[%d])" % (tys[i], vts[i], vec, i) for i in range(n))))
    elif k == "cla":
        ty = clipped_type(max(sig["mx"]), 0 if a.placeholder else a.lo)
        e.add("if (%s.size() != %d) { out.tok(\"SKIP\"); return; }" % (vec, n))
        e.add("nmtools_array<%s,%d> %s_{}; c9::fill_seq(%s_, %s); const auto& %s = %s_;" % (ty, n, name, name, vec, name, name))
    elif k == "clv":
        ty = clipped_type(max(sig["mx"]), 0 if a.placeholder else a.lo)
        e.add("if (%s.size() > %d) { out.tok(\"SKIP\"); return; }" % (vec, CAP))
        e.add("nmtools_static_vector<%s,%d> %s_{}; %s_.resize(%s.size()); c9::fill_seq(%s_, %s); const auto& %s = %s_;" % (
            ty, CAP, name, name, vec, name, vec, name, name))
    elif k == "fx":
        e.add("if (%s.size() != %d) { out.tok(\"SKIP\"); return; }" % (vec, n))
        e.add("nmtools_array<%s,%d> %s_{}; c9::fill_seq(%s_, %s); const auto& %s = %s_;" % (T, n, name, name, vec, name, name))
    elif k == "mfx":
        e.add("if (%s.size() != %d) { out.tok(\"SKIP\"); return; }" % (vec, n))
        e.add("nmtools_array<%s,%d> %s_{}; c9::fill_seq(%s_, %s); const auto %s = nmtools_maybe<nmtools_array<%s,%d>>{%s_};" % (
            T, n, name, name, vec, name, T, n, name))
    elif k == "raw":
        e.add("if (%s.size() != %d) { out.tok(\"SKIP\"); return; }" % (vec, n))
        e.add("%s %s_[%d] = {}; for (nm_size_t i_ = 0; i_ < %d; i_++) %s_[i_] = (%s)%s[i_]; const auto& %s = %s_;" % (
            T, name, n, n, name, T, vec, name, name))
    elif k == "tp":
        e.add("if (%s.size() != %d) { out.tok(\"SKIP\"); return; }" % (vec, n))
        e.add("const auto %s = nmtools_tuple<%s>{%s};" % (name, ",".join([T] * n), ",".join("(%s)%s[%d]" % (T, vec, i) for i in range(n))))
    elif k == "sv":
        e.add("if (%s.size() > %d) { out.tok(\"SKIP\"); return; }" % (vec, CAP))
        e.add("nmtools_static_vector<%s,%d> %s_{}; %s_.resize(%s.size()); c9::fill_seq(%s_, %s); const auto& %s = %s_;" % (
            T, CAP, name, name, vec, name, vec, name, name))
    elif k == "svt":
        # bounded length with a TIGHT bound (capacity = length of the baked value), like the shape of a hs_* array
        e.add("if (%s.size() > %d) { out.tok(\"SKIP\"); return; }" % (vec, n))
        e.add("nmtools_static_vector<%s,%d> %s_{}; %s_.resize(%s.size()); c9::fill_seq(%s_, %s); const auto& %s = %s_;" % (
            T, n, name, name, vec, name, vec, name, name))
    elif k == "hy":
        e.add("if (%s.size() > %d) { out.tok(\"SKIP\"); return; }" % (vec, CAP))
        e.add("na::hybrid_ndarray<%s,%d,1> %s_{}; %s_.resize(%s.size()); c9::fill_seq(%s_, %s); const auto& %s = %s_;" % (
            T, CAP, name, name, vec, name, vec, name, name))
    elif k == "dy":
        e.add("nmtools_list<%s> %s_{}; %s_.resize(%s.size()); c9::fill_seq(%s_, %s); const auto& %s = %s_;" % (
            T, name, name, vec, name, vec, name, name))
    elif k == "mdy":
        e.add("nmtools_list<%s> %s_{}; %s_.resize(%s.size()); c9::fill_seq(%s_, %s); const auto %s = nmtools_maybe<nmtools_list<%s>>{%s_};" % (
            T, name, name, vec, name, vec, name, T, name))
    else:
        raise ValueError("ia kind " + k)


def emit_is(e, a, ac, name, var, val, sig):
    k = ac.kind
    T = CTYPE.get(ac.T or "int")
    if val is None:
        e.add("const auto %s = nm::None;" % name)
        return
    if a.boolean:
        if k == "tt":
            e.add("const auto %s = %s;" % (name, "nm::True" if val else "nm::False"))
        else:
            e.add("const bool %s = (%s != 0);" % (name, var))
        return
    if k == "ct":
        e.add("const auto %s = %s{};" % (name, ct_expr(val)))
    elif k == "lit":
        e.add("const auto %s = %s;" % (name, lit_expr(val)))
    elif k == "cl":
        ty = clipped_type(sig["mx"], a.lo)
        e.add("const auto %s = %s((%s)%s);" % (name, ty, clipped_vtype(a.lo), var))
    elif k == "rt":
        e.add("const %s %s = (%s)%s;" % (T, name, T, var))
    else:
        raise ValueError("is kind " + k)


def nd_type_expr(kind, raw):
    return "decltype(nm::cast(%s, kind::ndarray_%s))" % (raw, kind)


def emit_arr(e, a, ac, name, vec, S, base, T, mod=None):
    """array operand of kind ac.kind with template shape S; run-time shape in `vec`; labels base.. (taken modulo `mod` if given)"""
    k = ac.kind
    dims = "".join("[%d]" % s for s in S)
    raw = name + "_raw"
    e.add("%s %s%s = {};" % (T, raw, dims))
    cm = k.startswith("cm_")
    kk = k[3:] if cm else k
    if kk in ND_KINDS:
        e.add("using %s_rt = %s;" % (name, nd_type_expr(kk, raw)))
        if cm:
            e.add("using %s_t = na::column_major_ndarray_t<typename %s_rt::buffer_type, typename %s_rt::shape_type>;" % (name, name, name))
        else:
            e.add("using %s_t = %s_rt;" % (name, name))
        e.add("%s_t %s_{};" % (name, name))
        if not kk.startswith("cs_"):
            e.add("if (!%s_.resize(vh::to_shape(%s))) { out.tok(\"SKIP resize\"); return; }" % (name, vec))
        else:
            e.add("if (!c9::same(%s, {%s})) { out.tok(\"SKIP\"); return; }" % (vec, ",".join(str(s) for s in S)))
    elif kk == "raw":
        e.add("if (!c9::same(%s, {%s})) { out.tok(\"SKIP\"); return; }" % (vec, ",".join(str(s) for s in S)))
        e.add("auto& %s_ = %s;" % (name, raw))
    elif kk == "nested":
        ty = T
        for s in reversed(S):
            ty = "nmtools_array<%s,%d>" % (ty, s)
        e.add("if (!c9::same(%s, {%s})) { out.tok(\"SKIP\"); return; }" % (vec, ",".join(str(s) for s in S)))
        e.add("%s %s_{};" % (ty, name))
    elif kk == "fixed_nd":
        e.add("if (!c9::same(%s, {%s})) { out.tok(\"SKIP\"); return; }" % (vec, ",".join(str(s) for s in S)))
        e.add("na::fixed_ndarray<%s,%s> %s_{};" % (T, ",".join(str(s) for s in S), name))
    elif kk == "hybrid_nd":
        e.add("na::hybrid_ndarray<%s,%d,%d> %s_{};" % (T, int(np.prod(S)), len(S), name))
        e.add("if (%s.size() != %d) { out.tok(\"SKIP\"); return; }" % (vec, len(S)))
        e.add("{ nmtools_array<nm_size_t,%d> sh_{}; c9::fill_seq(sh_, %s); %s_.resize(sh_); }" % (len(S), vec, name))
    elif kk == "dynamic_nd":
        e.add("na::dynamic_ndarray<%s> %s_{};" % (T, name))
        e.add("%s_.resize(vh::to_shape(%s));" % (name, vec))
    else:
        raise ValueError("array kind " + k)
    if mod:
        e.add("c9::fill_labels_mod(%s_, %d, %d);" % (name, base, mod))
    else:
        e.add("c9::fill_labels(%s_, %d);" % (name, base))
    e.add("const auto& %s = %s_;" % (name, name))


# ----------------------------------------------------------------------------------------------------
# operations
# ----------------------------------------------------------------------------------------------------

INVALID = "INVALID"


def rshape(rng, n, ext=EXT, lo=1):
    return [rng.randint(lo, ext) for _ in range(n)]


class Op:
    def __init__(self, name, headers, args, call, dims, gen, oracle, family="index", norm=None, result="index",
                 cx=True, weight=1, ext=EXT, parts=None, core_dims=(), wave=1, tol=0.0, quick_kinds=None, exclude=None):
        self.exclude = exclude      # (configuration string, value set) -> reason: a cell of the unchanged library with a reported finding
                                    # awaiting triage (findings/*.md); not run, never silently: the reason names the finding
        self.wave = wave            # 2: operations added in the second wave (vf/c09_ops2.py): own pool in the plan, booleans always
                                    # compile-time constants, scalars next to a clipped index array are run-time values
        self.tol = tol              # relative tolerance of element comparisons (floating-point results only)
        self.quick_kinds = quick_kinds
        self.core_dims = list(core_dims)   # signatures only used by the deterministic core (probed, never drawn from the seed)
        self.parts = tuple(parts or ())   # composite view operation: the nested library calls, outermost first
        self.composite = bool(parts)
        self.name = name
        self.headers = headers
        self.args = args
        self.call = call          # format string over argument names
        self.dims = dims          # list of admissible dims objects (hashable)
        self.gen = gen            # (rng, dims, primary) -> dict of values
        self.oracle = oracle      # vals -> normalised expected result, or INVALID
        self.family = family
        self.norm = norm          # optional normaliser of the parsed result
        self.result = result      # "index" | "view"
        self.cx = cx
        self.weight = weight
        self.ext = ext


OPS = {}
# configurations always included for an operation (those in which a defect of the unchanged tree lives, so that its
# key is observed under every seed)
PINNED = {}


def op(*a, **kw):
    o = Op(*a, **kw)
    OPS[o.name] = o
    return o


def V(x):
    return ("V", [int(v) for v in x])


def I(x):
    return ("I", int(x))


NOTHING = ("N",)

# --- shape_transpose(shape, axes|None)


def _g_transpose(rng, dims, primary=None):
    n, none = dims
    shape = primary or rshape(rng, n)
    if none:
        return dict(shape=shape, axes=None)
    ax = list(range(n))
    rng.shuffle(ax)
    return dict(shape=shape, axes=ax)


def _o_transpose(v):
    s = v["shape"]
    ax = v["axes"]
    if ax is None:
        return V(reversed(s))
    if sorted(ax) != list(range(len(s))):
        return INVALID
    return V(s[a] for a in ax)


op("shape_transpose", ["nmtools/array/index/transpose.hpp"], [IA("shape"), IA("axes", optional=True)],
   "ix::shape_transpose({shape},{axes})", [(2, False), (3, False), (4, False), (2, True), (3, True)], _g_transpose, _o_transpose)

# --- shape_reshape(src, dst) with one optional -1


def _factor(rng, p, n):
    out = []
    for k in range(n - 1):
        ds = [d for d in range(1, p + 1) if p % d == 0]
        d = rng.choice(ds)
        out.append(d)
        p //= d
    out.append(p)
    rng.shuffle(out)
    return out


def _g_reshape(rng, dims, primary=None):
    n, m, neg = dims
    src = primary or rshape(rng, n, 4)
    p = int(np.prod(src))
    dst = _factor(rng, p, m)
    if neg:
        dst[rng.randrange(m)] = -1
    return dict(src=src, dst=dst)


def _o_reshape(v):
    src, dst = v["src"], v["dst"]
    p = int(np.prod(src))
    if sum(1 for d in dst if d < 0) > 1 or any(d < -1 or d == 0 for d in dst):
        return INVALID
    q = int(np.prod([d for d in dst if d > 0]))
    if -1 in dst:
        if q == 0 or p % q:
            return NOTHING
        return V(d if d > 0 else p // q for d in dst)
    if p != q:
        return NOTHING
    return V(dst)


op("shape_reshape", ["nmtools/array/index/reshape.hpp"], [IA("src"), IA("dst", signed=True, lo=-1, placeholder=True)],
   "ix::shape_reshape({src},{dst})", [(1, 2, False), (2, 1, False), (2, 2, False), (3, 2, False), (2, 3, True), (3, 3, True)], _g_reshape, _o_reshape)

# --- broadcast_shape(a, b)


def _bcast_pair(rng, n, m, ext=EXT):
    k = max(n, m)
    res = rshape(rng, k, ext)
    a = [x if rng.random() < 0.6 else 1 for x in res[k - n:]]
    b = [x if rng.random() < 0.6 else 1 for x in res[k - m:]]
    return a, b


def _g_bshape(rng, dims, primary=None):
    n, m = dims
    a, b = _bcast_pair(rng, n, m)
    if primary:
        a = primary
        k = max(n, m)
        full = [1] * (k - n) + list(a)
        b = [(x if rng.random() < 0.5 else 1) if x > 1 else rng.randint(1, EXT) for x in full][k - m:]
    if rng.random() < 0.15:
        # make it (probably) incompatible
        j = rng.randrange(m)
        b[j] = b[j] % EXT + 2
    return dict(a=a, b=b)


def np_bcast(*shapes):
    try:
        return list(np.broadcast_shapes(*[tuple(s) for s in shapes]))
    except ValueError:
        return None


def _o_bshape(v):
    r = np_bcast(v["a"], v["b"])
    return NOTHING if r is None else V(r)


op("broadcast_shape", ["nmtools/array/index/broadcast_shape.hpp"], [IA("a"), IA("b")],
   "ix::broadcast_shape({a},{b})", [(2, 2), (1, 3), (3, 2), (3, 3)], _g_bshape, _o_bshape)


def _g_bshape3(rng, dims, primary=None):
    n, m, l = dims
    k = max(n, m, l)
    res = rshape(rng, k)
    mk = lambda q: [x if rng.random() < 0.6 else 1 for x in res[k - q:]]
    a, b, c = mk(n), mk(m), mk(l)
    if primary:
        a = primary
    return dict(a=a, b=b, c=c)


def _o_bshape3(v):
    r = np_bcast(v["a"], v["b"], v["c"])
    return NOTHING if r is None else V(r)


op("broadcast_shape3", ["nmtools/array/index/broadcast_shape.hpp"], [IA("a"), IA("b"), IA("c")],
   "ix::broadcast_shape({a},{b},{c})", [(1, 2, 3), (2, 2, 2)], _g_bshape3, _o_bshape3)

# --- shape_broadcast_to(a, b) -> (success, shape, free_axes)?  normalised by the check: success + shape


def _g_bto(rng, dims, primary=None):
    n, m = dims
    m = max(n, m)
    dst = rshape(rng, m)
    a = [x if rng.random() < 0.6 else 1 for x in dst[m - n:]]
    if primary:
        a = primary
        dst = rshape(rng, m - n) + [x if x > 1 else rng.randint(1, EXT) for x in a]
    if rng.random() < 0.15:
        j = rng.randrange(m)
        dst[j] = dst[j] % EXT + 2
    return dict(a=a, b=dst)


def _o_bto(v):
    a, b = v["a"], v["b"]
    try:
        np.broadcast_to(np.zeros(a, dtype=np.int8), b)
    except ValueError:
        return NOTHING
    return V(b)


op("shape_broadcast_to", ["nmtools/array/index/broadcast_to.hpp"], [IA("a"), IA("b")],
   "ix::shape_broadcast_to({a},{b})", [(1, 2), (2, 2), (2, 3), (3, 3)], _g_bto, _o_bto, norm="bto")

# --- normalize_axis(axis(array), ndim)


def _g_naxis(rng, dims, primary=None):
    n, = dims
    ndim = rng.randint(n, 4)
    ax = rng.sample(range(ndim), n)
    ax = [a - ndim if rng.random() < 0.4 else a for a in ax]
    if rng.random() < 0.15:
        ax[rng.randrange(n)] = rng.choice([ndim, -ndim - 1, ndim + 1])
    return dict(axis=ax, ndim=ndim)


def _o_naxis(v):
    nd = v["ndim"]
    if any(a >= nd or a < -nd for a in v["axis"]):
        return NOTHING
    return V(a + nd if a < 0 else a for a in v["axis"])


op("normalize_axis", ["nmtools/array/index/normalize_axis.hpp"], [IA("axis", signed=True, lo=-5), IS("ndim")],
   "ix::normalize_axis({axis},{ndim})", [(1,), (2,), (3,)], _g_naxis, _o_naxis)


def _g_naxis1(rng, dims, primary=None):
    ndim = rng.randint(1, 4)
    a = rng.randrange(-ndim, ndim)
    if rng.random() < 0.15:
        a = rng.choice([ndim, -ndim - 1])
    return dict(axis=a, ndim=ndim)


def _o_naxis1(v):
    nd, a = v["ndim"], v["axis"]
    if a >= nd or a < -nd:
        return NOTHING
    return I(a + nd if a < 0 else a)


op("normalize_axis1", ["nmtools/array/index/normalize_axis.hpp"], [IS("axis", signed=True, lo=-5), IS("ndim")],
   "ix::normalize_axis({axis},{ndim})", [()], _g_naxis1, _o_naxis1)

# --- compute_strides / compute_indices / compute_offset / product


def _strides(s):
    out, p = [], 1
    for e in reversed(s):
        out.append(p)
        p *= e
    return out[::-1]


op("compute_strides", ["nmtools/array/index/compute_strides.hpp"], [IA("shape")],
   "ix::compute_strides({shape})", [(2,), (3,), (4,)],
   lambda rng, d, primary=None: dict(shape=primary or rshape(rng, d[0])), lambda v: V(_strides(v["shape"])))

op("product", ["nmtools/array/index/product.hpp"], [IA("shape")],
   "ix::product({shape})", [(1,), (3,), (4,)],
   lambda rng, d, primary=None: dict(shape=primary or rshape(rng, d[0])), lambda v: I(int(np.prod(v["shape"]))))


def _g_cind(rng, dims, primary=None):
    s = primary or rshape(rng, dims[0])
    return dict(offset=rng.randrange(int(np.prod(s))), shape=s)


op("compute_indices", ["nmtools/array/index/compute_indices.hpp"], [IS("offset"), IA("shape")],
   "ix::compute_indices({offset},{shape})", [(2,), (3,), (4,)], _g_cind,
   lambda v: V(np.unravel_index(v["offset"], v["shape"])))


def _g_coff(rng, dims, primary=None):
    s = rshape(rng, dims[0])
    idx = primary or [rng.randrange(e) for e in s]
    s = [max(e, i + 1) for e, i in zip(s, idx)]
    return dict(indices=idx, strides=_strides(s))


op("compute_offset", ["nmtools/array/index/compute_offset.hpp"], [IA("indices"), IA("strides")],
   "ix::compute_offset({indices},{strides})", [(2,), (3,), (4,)], _g_coff,
   lambda v: I(sum(a * b for a, b in zip(v["indices"], v["strides"]))))

# --- shape_tile(shape, reps)


def _g_tile(rng, dims, primary=None):
    n, m = dims
    return dict(shape=primary or rshape(rng, n, 3), reps=rshape(rng, m, 3))


def _o_tile(v):
    return V(np.tile(np.zeros(v["shape"], dtype=np.int8), v["reps"]).shape)


op("shape_tile", ["nmtools/array/index/tile.hpp"], [IA("shape"), IA("reps")],
   "ix::shape_tile({shape},{reps})", [(1, 2), (2, 2), (3, 1), (2, 3), (3, 3)], _g_tile, _o_tile)

# --- shape_repeat(shape, repeats(scalar|array), axis|None)


def _g_repeat(rng, dims, primary=None):
    n, mode = dims       # mode 0: scalar repeats + axis, 1: scalar repeats, axis None, 2: array repeats + axis
    shape = primary or rshape(rng, n, 3)
    if mode == 1:
        return dict(shape=shape, repeats=rng.randint(1, 3), axis=None)
    ax = rng.randrange(n)
    if mode == 0:
        return dict(shape=shape, repeats=rng.randint(1, 3), axis=ax)
    return dict(shape=shape, repeats_a=[rng.randint(0, 2) for _ in range(shape[ax])], axis=ax)


def _o_repeat(v):
    s = list(v["shape"])
    if "repeats_a" in v:
        if len(v["repeats_a"]) != s[v["axis"]]:
            return INVALID
        s[v["axis"]] = sum(v["repeats_a"])
        return V(s)
    if v["axis"] is None:
        return V([int(np.prod(s)) * v["repeats"]])
    s[v["axis"]] *= v["repeats"]
    return V(s)


op("shape_repeat", ["nmtools/array/index/repeat.hpp"], [IA("shape"), IS("repeats"), IS("axis", optional=True)],
   "ix::shape_repeat({shape},{repeats},{axis})", [(1, 0), (2, 0), (3, 0), (2, 1), (3, 1)], _g_repeat, _o_repeat)

# --- shape_pad(shape, pad_width[begin..., end...])


def _g_pad(rng, dims, primary=None):
    n, = dims
    return dict(shape=primary or rshape(rng, n, 3), pad_width=[rng.randint(0, 2) for _ in range(2 * n)])


def _o_pad(v):
    s, w = v["shape"], v["pad_width"]
    n = len(s)
    if len(w) != 2 * n:
        return INVALID
    return V(s[i] + w[i] + w[n + i] for i in range(n))


op("shape_pad", ["nmtools/array/index/pad.hpp"], [IA("shape"), IA("pad_width")],
   "ix::shape_pad({shape},{pad_width})", [(1,), (2,), (3,)], _g_pad, _o_pad)

# --- shape_concatenate(a, b, axis|None) -> tuple(success, shape)


def _g_concat(rng, dims, primary=None):
    n, none = dims
    a = primary or rshape(rng, n, 3)
    if none:
        return dict(a=a, b=rshape(rng, rng.randint(1, 3), 3) if primary is None else rshape(rng, n, 3), axis=None)
    ax = rng.randrange(n)
    b = list(a)
    b[ax] = rng.randint(1, 3)
    if rng.random() < 0.15 and n > 1:
        j = (ax + 1) % n
        b[j] = b[j] % 3 + 1
    return dict(a=a, b=b, axis=ax)


def _o_concat(v):
    a, b, ax = v["a"], v["b"], v["axis"]
    if ax is None:
        return V([int(np.prod(a)) + int(np.prod(b))])
    if len(a) != len(b):
        return NOTHING
    if any(x != y for i, (x, y) in enumerate(zip(a, b)) if i != ax):
        return NOTHING
    r = list(a)
    r[ax] = a[ax] + b[ax]
    return V(r)


op("shape_concatenate", ["nmtools/array/index/concatenate.hpp"], [IA("a"), IA("b"), IS("axis", optional=True)],
   "ix::shape_concatenate({a},{b},{axis})", [(1, False), (2, False), (3, False), (2, True)], _g_concat, _o_concat, norm="flag_tuple")

# --- remove_dims(shape, axis (scalar|array), keepdims)


def _g_rdims(rng, dims, primary=None):
    n, k = dims        # k = number of axes (0: scalar axis)
    shape = primary or rshape(rng, n)
    keep = rng.random() < 0.5
    if k == 0:
        return dict(shape=shape, axis=rng.randrange(-n, n), keepdims=int(keep))
    ax = rng.sample(range(n), min(k, n))
    ax = [a - n if rng.random() < 0.3 else a for a in ax]
    return dict(shape=shape, axes=ax, keepdims=int(keep))


def _o_rdims(v):
    s = v["shape"]
    n = len(s)
    ax = v["axes"] if "axes" in v else [v["axis"]]
    if any(a >= n or a < -n for a in ax):
        return INVALID
    ax = [a % n for a in ax]
    if len(set(ax)) != len(ax):
        return INVALID
    if v["keepdims"]:
        return V(1 if i in ax else e for i, e in enumerate(s))
    return V(e for i, e in enumerate(s) if i not in ax)


op("remove_dims", ["nmtools/array/index/remove_dims.hpp"], [IA("shape"), IS("axis", signed=True, lo=-5), IS("keepdims", boolean=True)],
   "ix::remove_dims({shape},{axis},{keepdims})", [(2, 0), (3, 0), (4, 0)], _g_rdims, _o_rdims)

op("remove_dims_axes", ["nmtools/array/index/remove_dims.hpp"], [IA("shape"), IA("axes", signed=True, lo=-5), IS("keepdims", boolean=True)],
   "ix::remove_dims({shape},{axes},{keepdims})", [(2, 1), (3, 1), (3, 2), (4, 2)], _g_rdims, _o_rdims)

# --- shape_matmul(a, b)


def _g_matmul(rng, dims, primary=None):
    n, m = dims
    k = rng.randint(1, 3)
    if n >= 2 and m >= 2:
        ba, bb = _bcast_pair(rng, n - 2, m - 2, 3)
        a = ba + [rng.randint(1, 3), k]
        b = bb + [k, rng.randint(1, 3)]
    elif n == 1 and m == 1:
        a, b = [k], [k]
    elif n == 1:
        a = [k]
        b = rshape(rng, m - 2, 3) + [k, rng.randint(1, 3)]
    else:
        a = rshape(rng, n - 1, 3) + [k]
        b = [k]
    if primary:
        a = primary
        if m == 1:
            b = [a[-1]]
        else:
            b[-2] = a[-1]
            if n >= 2:
                for j in range(1, min(n - 2, m - 2) + 1):
                    x = a[-2 - j]
                    b[-2 - j] = x if rng.random() < 0.6 else (1 if x > 1 else rng.randint(1, 3))
    if rng.random() < 0.12:
        a = list(a)
        a[-1] = a[-1] % 3 + 1
    return dict(a=a, b=b)


def _o_matmul(v):
    a, b = v["a"], v["b"]
    try:
        r = np.matmul(np.zeros(a, dtype=np.int8), np.zeros(b, dtype=np.int8))
    except ValueError:
        return NOTHING
    return V(r.shape) if r.ndim else ("NONE",)


op("shape_matmul", ["nmtools/array/view/matmul.hpp"], [IA("a"), IA("b")],
   "ix::shape_matmul({a},{b})", [(2, 2), (3, 2), (2, 3), (3, 3), (2, 1), (1, 2), (4, 3)], _g_matmul, _o_matmul, weight=2)

# --- shape_expand_dims(shape, axes)


def _g_expand(rng, dims, primary=None):
    n, k = dims
    shape = primary or rshape(rng, n)
    ax = rng.sample(range(n + k), k)
    return dict(shape=shape, axes=ax)


def _o_expand(v):
    try:
        return V(np.expand_dims(np.zeros(v["shape"], dtype=np.int8), tuple(v["axes"])).shape)
    except Exception:
        return INVALID


op("shape_expand_dims", ["nmtools/array/index/expand_dims.hpp"], [IA("shape"), IA("axes")],
   "ix::shape_expand_dims({shape},{axes})", [(1, 1), (2, 1), (2, 2), (3, 1)], _g_expand, _o_expand, core_dims=[(1, 2)])

# --- shape_squeeze(shape)


def _g_squeeze(rng, dims, primary=None):
    n, = dims
    s = primary or [e if rng.random() < 0.55 else 1 for e in rshape(rng, n)]
    return dict(shape=s)


def _o_squeeze(v):
    r = [e for e in v["shape"] if e != 1]
    return V(r)


op("shape_squeeze", ["nmtools/array/index/squeeze.hpp"], [IA("shape")], "ix::shape_squeeze({shape})",
   [(2,), (3,), (4,)], _g_squeeze, _o_squeeze)

# --- shape_resize(src, dst)  /  shape_roll? / shape_atleast_nd(shape, nd)


def _g_atleast(rng, dims, primary=None):
    n, = dims
    return dict(shape=primary or rshape(rng, n), nd=rng.randint(1, 4))


def _o_atleast(v):
    s = v["shape"]
    return V([1] * max(0, v["nd"] - len(s)) + list(s))


op("shape_atleast_nd", ["nmtools/array/index/atleast_nd.hpp"], [IA("shape"), IS("nd")], "ix::shape_atleast_nd({shape},{nd})",
   [(1,), (2,), (3,)], _g_atleast, _o_atleast)

# --- moveaxis_to_transpose(shape, source, destination)  (arrays)


def _g_moveaxis(rng, dims, primary=None):
    n, k = dims
    k = min(k, n)
    shape = primary or rshape(rng, n)
    src = rng.sample(range(n), k)
    dst = rng.sample(range(n), k)
    src = [a - n if rng.random() < 0.3 else a for a in src]
    dst = [a - n if rng.random() < 0.3 else a for a in dst]
    return dict(shape=shape, source=src, destination=dst)


def _o_moveaxis(v):
    n = len(v["shape"])
    try:
        ref = np.moveaxis(np.zeros(list(range(2, n + 2)), dtype=np.int8), v["source"], v["destination"]).shape
    except Exception:
        return INVALID
    return V(e - 2 for e in ref)


op("moveaxis_to_transpose", ["nmtools/array/index/moveaxis.hpp"], [IA("shape"), IA("source", signed=True, lo=-5), IA("destination", signed=True, lo=-5)],
   "ix::moveaxis_to_transpose({shape},{source},{destination})", [(2, 1), (3, 1), (3, 2)], _g_moveaxis, _o_moveaxis)

# --- shape_outer(a, b), gather / scatter / reverse


def _g_two(rng, dims, primary=None):
    n, m = dims
    return dict(a=primary or rshape(rng, n), b=rshape(rng, m))


op("shape_outer", ["nmtools/array/index/outer.hpp"], [IA("a"), IA("b")], "ix::shape_outer({a},{b})",
   [(1, 1), (2, 1), (2, 2), (1, 3)], _g_two, lambda v: V(list(v["a"]) + list(v["b"])))


def _g_gather(rng, dims, primary=None):
    n, = dims
    vec = primary or rshape(rng, n)
    idx = list(range(n))
    rng.shuffle(idx)
    return dict(vec=vec, indices=idx)


op("gather", ["nmtools/array/index/gather.hpp"], [IA("vec"), IA("indices")], "ix::gather({vec},{indices})",
   [(2,), (3,), (4,)], _g_gather, lambda v: V(v["vec"][i] for i in v["indices"]))


def _o_scatter(v):
    r = [0] * len(v["vec"])
    for k, i in enumerate(v["indices"]):
        r[i] = v["vec"][k]
    return V(r)


op("scatter", ["nmtools/array/index/scatter.hpp"], [IA("vec"), IA("indices")], "ix::scatter({vec},{indices})",
   [(2,), (3,), (4,)], _g_gather, _o_scatter)

op("reverse", ["nmtools/array/index/reverse.hpp"], [IA("vec")], "ix::reverse({vec})",
   [(2,), (3,), (4,)], lambda rng, d, primary=None: dict(vec=primary or rshape(rng, d[0])), lambda v: V(reversed(v["vec"])))

# --- shape_resize(src, dst)
op("shape_resize", ["nmtools/array/index/resize.hpp"], [IA("a"), IA("b")], "ix::shape_resize({a},{b})",
   [(1, 1), (2, 2), (3, 3)], _g_two, lambda v: V(v["b"]))

# --- free_axes(a, b): for each axis of b (aligned right) is it free (broadcast) w.r.t. a?


def _g_free(rng, dims, primary=None):
    # a = the broadcast (longer) shape, b = the original shape of interest
    n, m = dims
    m = max(n, m)
    if primary:
        m = len(primary)
        n = min(n, m)
        a = list(primary)
    else:
        a = rshape(rng, m)
    b = [x if rng.random() < 0.6 else 1 for x in a[m - n:]]
    return dict(a=a, b=b)


def _o_free(v):
    a, b = v["a"], v["b"]
    m, n = len(a), len(b)
    if n > m:
        return INVALID
    pb = [None] * (m - n) + list(b)
    if any(y is not None and y != 1 and y != x for x, y in zip(a, pb)):
        return INVALID
    return V(1 if (y is None or y == 1) else 0 for y in pb)


op("free_axes", ["nmtools/array/index/free_axes.hpp"], [IA("a"), IA("b")], "ix::free_axes({a},{b})",
   [(2, 1), (2, 2), (3, 2), (3, 3)], _g_free, _o_free, cx=False, core_dims=[(2, 3)])

# --- shape_slice(shape, slices...): slices are (start,stop) / (start,stop,step) tuples of run-time ints, integers or Ellipsis;
#     the kind varies for the shape only.  The slice pattern is part of the signature.
#     patterns: 't2' tuple{start,stop}, 't3' tuple{start,stop,step}, 'i' integer, 'e' Ellipsis, 'n2' tuple{None,stop}, 'nn' tuple{None,None}


def _g_slice(rng, dims, primary=None):
    pat = dims
    n = len([p for p in pat if p != "e"])
    if "e" in pat:
        n += rng.randint(0, 2)
    shape = primary or rshape(rng, n, 4)
    n = len(shape)
    sl = []
    k = 0
    nexp = len([p for p in pat if p != "e"])
    for p in pat:
        if p == "e":
            sl.append(None)
            k += n - nexp
            continue
        e = shape[k] if k < n else 1
        k += 1
        if p == "i":
            sl.append([rng.randrange(e)])
        elif p == "t2":
            a = rng.randrange(e)
            sl.append([a, rng.randint(a + 1, e)])
        elif p == "t3":
            a = rng.randrange(e)
            sl.append([a, rng.randint(a + 1, e), rng.randint(1, 2)])
        elif p == "n2":
            sl.append([rng.randint(1, e)])
        elif p == "nn":
            sl.append([])
    return dict(shape=shape, sl=sl)


def _o_slice(v, pat):
    shape = v["shape"]
    idx = []
    for p, s in zip(pat, v["sl"]):
        if p == "e":
            idx.append(Ellipsis)
        elif p == "i":
            idx.append(s[0])
        elif p == "t2":
            idx.append(slice(s[0], s[1]))
        elif p == "t3":
            idx.append(slice(s[0], s[1], s[2]))
        elif p == "n2":
            idx.append(slice(None, s[0]))
        elif p == "nn":
            idx.append(slice(None, None))
    try:
        r = np.zeros(shape, dtype=np.int8)[tuple(idx)]
    except IndexError:
        return INVALID
    return V(r.shape) if r.ndim else INVALID


SLICE_PATTERNS = [("t2",), ("t2", "t3"), ("i", "t2"), ("e", "t2"), ("n2", "nn"), ("t3", "e"), ("nn", "i", "t2")]



# ----------------------------------------------------------------------------------------------------
# view / evaluation operations (array operands of every kind)
# ----------------------------------------------------------------------------------------------------

VEXT = 3


def A(shape, base, mod=None):
    d = dict(shape=[int(x) for x in shape], base=base)
    if mod:
        d["mod"] = mod      # labels are taken modulo mod (conditions: 0 / non-zero)
    return d


def np_arr(a, T="int"):
    n = int(np.prod(a["shape"]))
    dt = {"int": np.int64, "long": np.int64, "float": np.float64, "double": np.float64}[T]
    r = np.arange(n, dtype=dt) + a["base"]
    if a.get("mod"):
        r = r % a["mod"]
    return r.reshape(a["shape"])


def AR(x):
    x = np.asarray(x)
    if x.ndim == 0:
        return ("S", x.item())
    return ("A", [int(e) for e in x.shape], [e.item() for e in x.flatten()])


def vshape(rng, n, ext=VEXT):
    while True:
        s = rshape(rng, n, ext)
        if int(np.prod(s)) > 1 or n == 1 and rng.random() < 0.3:
            return s


def vop(name, headers, args, call, dims, gen, oracle, **kw):
    return op(name, headers, args, call, dims, gen, oracle, family="view", result="view", cx=False, **kw)


def _gv_transpose(rng, dims, primary=None):
    n, none = dims
    shape = primary or vshape(rng, n)
    v = _g_transpose(rng, (len(shape), none), shape)
    return dict(a=A(shape, 1), axes=v["axes"])


def _ov_transpose(v, T="int"):
    ax = v["axes"]
    if ax is not None and sorted(ax) != list(range(len(v["a"]["shape"]))):
        return INVALID
    return AR(np.transpose(np_arr(v["a"], T), ax))


vop("transpose", ["nmtools/array/view/transpose.hpp"], [ARR("a"), IA("axes", optional=True)], "view::transpose({a},{axes})",
    [(2, False), (3, False), (2, True), (1, False)], _gv_transpose, _ov_transpose)


def _gv_reshape(rng, dims, primary=None):
    n, m, neg = dims
    shape = primary or vshape(rng, n)
    v = _g_reshape(rng, (len(shape), m, neg), shape)
    return dict(a=A(shape, 1), dst=v["dst"])


def _ov_reshape(v, T="int"):
    r = _o_reshape(dict(src=v["a"]["shape"], dst=v["dst"]))
    if r in (INVALID, NOTHING):
        return r
    return AR(np_arr(v["a"], T).reshape(v["dst"]))


vop("reshape", ["nmtools/array/view/reshape.hpp"], [ARR("a"), IA("dst", signed=True, lo=-1, placeholder=True)], "view::reshape({a},{dst})",
    [(1, 2, False), (2, 1, False), (2, 2, True), (2, 3, False), (3, 2, True)], _gv_reshape, _ov_reshape)


def _gv_bto(rng, dims, primary=None):
    n, m = dims
    if primary is None:
        v = _g_bto(rng, (n, m))
        v["a"] = [min(x, VEXT) for x in v["a"]]
        v["b"] = [min(x, VEXT) for x in v["b"]]
        if _o_bto(v) == NOTHING and rng.random() < 0.5:
            v = _g_bto(rng, (n, m), v["a"])
    else:
        v = _g_bto(rng, (len(primary), max(m, len(primary))), list(primary))
        v["b"] = [min(x, VEXT + 1) for x in v["b"]]
    return dict(a=A(v["a"], 1), dst=v["b"])


def _ov_bto(v, T="int"):
    try:
        return AR(np.broadcast_to(np_arr(v["a"], T), v["dst"]))
    except ValueError:
        return NOTHING


vop("broadcast_to", ["nmtools/array/view/broadcast_to.hpp"], [ARR("a"), IA("dst")], "view::broadcast_to({a},{dst})",
    [(1, 2), (2, 2), (2, 3), (1, 3)], _gv_bto, _ov_bto)


def _gv_binary(rng, dims, primary=None):
    n, m = dims
    if primary is None:
        a, b = _bcast_pair(rng, n, m, VEXT)
    else:
        v = _g_bshape(rng, (len(primary), m), list(primary))
        a, b = v["a"], [min(x, VEXT) for x in v["b"]]
    if rng.random() < 0.1:
        b = list(b)
        b[-1] = b[-1] % VEXT + 2
    return dict(a=A(a, 1), b=A(b, 50))


def _ov_binary(f):
    def orc(v, T="int"):
        try:
            return AR(f(np_arr(v["a"], T), np_arr(v["b"], T)))
        except ValueError:
            return NOTHING
    return orc


vop("add", ["nmtools/array/view/ufuncs/add.hpp"], [ARR("a"), ARR("b")], "view::add({a},{b})",
    [(2, 2), (1, 2), (3, 2), (2, 3)], _gv_binary, _ov_binary(np.add))
vop("multiply", ["nmtools/array/view/ufuncs/multiply.hpp"], [ARR("a"), ARR("b")], "view::multiply({a},{b})",
    [(2, 2), (2, 1), (3, 3)], _gv_binary, _ov_binary(np.multiply))
vop("subtract", ["nmtools/array/view/ufuncs/subtract.hpp"], [ARR("a"), ARR("b")], "view::subtract({a},{b})",
    [(2, 2), (1, 3)], _gv_binary, _ov_binary(np.subtract))


def _gv_sum(rng, dims, primary=None):
    n, mode = dims      # mode 0 scalar axis, 1 axes array (1 axis), 2 axes array (2 axes), 3 None
    shape = primary or vshape(rng, n)
    n = len(shape)
    keep = int(rng.random() < 0.5)
    if mode == 0:
        return dict(a=A(shape, 1), axis=rng.randrange(-n, n), keepdims=keep)
    if mode == 3:
        return dict(a=A(shape, 1), axis=None, keepdims=keep)
    k = min(mode, n)
    ax = rng.sample(range(n), k)
    ax = [x - n if rng.random() < 0.3 else x for x in ax]
    return dict(a=A(shape, 1), axes=ax, keepdims=keep)


def _ov_sum(v, T="int"):
    a = np_arr(v["a"], T)
    ax = tuple(v["axes"]) if "axes" in v else v["axis"]
    n = a.ndim
    l = list(ax) if isinstance(ax, tuple) else ([] if ax is None else [ax])
    if any(x >= n or x < -n for x in l) or len({x % n for x in l}) != len(l):
        return INVALID
    return AR(np.sum(a, axis=ax, keepdims=bool(v["keepdims"])))


vop("sum", ["nmtools/array/view/sum.hpp"], [ARR("a"), IS("axis", signed=True, lo=-4, optional=True), IS("keepdims", boolean=True)],
    "view::sum({a},{axis},nm::None,nm::None,{keepdims})", [(2, 0), (3, 0), (2, 3), (1, 0)], _gv_sum, _ov_sum)
vop("sum_axes", ["nmtools/array/view/sum.hpp"], [ARR("a"), IA("axes", signed=True, lo=-4), IS("keepdims", boolean=True)],
    "view::sum({a},{axes},nm::None,nm::None,{keepdims})", [(2, 1), (3, 2), (3, 1)], _gv_sum, _ov_sum)


def _gv_tile(rng, dims, primary=None):
    n, m = dims
    shape = primary or vshape(rng, n, 2 if n > 1 else 3)
    return dict(a=A(shape, 1), reps=rshape(rng, m, 2))


vop("tile", ["nmtools/array/view/tile.hpp"], [ARR("a"), IA("reps")], "view::tile({a},{reps})",
    [(1, 2), (2, 2), (2, 1), (3, 2)], _gv_tile, lambda v, T="int": AR(np.tile(np_arr(v["a"], T), v["reps"])))


def _gv_concat(rng, dims, primary=None):
    n, none = dims
    v = _g_concat(rng, (n, none), primary or vshape(rng, n))
    if none and primary is None:
        v["b"] = vshape(rng, rng.randint(1, 3))
    return dict(a=A(v["a"], 1), b=A(v["b"], 50), axis=v["axis"])


def _ov_concat(v, T="int"):
    try:
        return AR(np.concatenate([np_arr(v["a"], T), np_arr(v["b"], T)], axis=v["axis"]))
    except ValueError:
        return NOTHING


vop("concatenate", ["nmtools/array/view/concatenate.hpp"], [ARR("a"), ARR("b"), IS("axis", optional=True)],
    "view::concatenate({a},{b},{axis})", [(1, False), (2, False), (3, False), (2, True)], _gv_concat, _ov_concat)


def _gv_matmul(rng, dims, primary=None):
    v = _g_matmul(rng, dims, primary)
    return dict(a=A(v["a"], 1), b=A(v["b"], 50))


def _ov_matmul(v, T="int"):
    try:
        return AR(np.matmul(np_arr(v["a"], T), np_arr(v["b"], T)))
    except ValueError:
        return NOTHING


vop("matmul", ["nmtools/array/view/matmul.hpp"], [ARR("a"), ARR("b")], "view::matmul({a},{b})",
    [(2, 2), (3, 2), (2, 3), (2, 1)], _gv_matmul, _ov_matmul, weight=3)

def _gv_slice(rng, dims, primary=None):
    n, = dims
    shape = primary or vshape(rng, n)
    e = shape[0]
    a = rng.randrange(e)
    return dict(a=A(shape, 1), start=a, stop=rng.randint(a + 1, e))


def _ov_slice(v, T="int"):
    e = v["a"]["shape"][0]
    if not (0 <= v["start"] < v["stop"] <= e):
        return INVALID
    if len(v["a"]["shape"]) < 2:
        # a trailing Ellipsis that stands for zero axes is not supported by view::slice for ANY array kind (slice semantics: C05)
        return INVALID
    return AR(np_arr(v["a"], T)[v["start"]:v["stop"], ...])


vop("slice", ["nmtools/array/view/slice.hpp"], [ARR("a"), IS("start"), IS("stop")],
    "view::slice({a},nmtools_tuple{{{start},{stop}}},nm::Ellipsis)", [(2,), (3,)], _gv_slice, _ov_slice)

vop("flatten", ["nmtools/array/view/flatten.hpp"], [ARR("a")], "view::flatten({a})", [(1,), (2,), (3,)],
    lambda rng, d, primary=None: dict(a=A(primary or vshape(rng, d[0]), 1)), lambda v, T="int": AR(np_arr(v["a"], T).flatten()))


def _gv_expand(rng, dims, primary=None):
    n, k = dims
    shape = primary or vshape(rng, n)
    return dict(a=A(shape, 1), axes=rng.sample(range(len(shape) + k), k))


vop("expand_dims", ["nmtools/array/view/expand_dims.hpp"], [ARR("a"), IA("axes")], "view::expand_dims({a},{axes})",
    [(1, 1), (2, 1), (2, 2)], _gv_expand, lambda v, T="int": AR(np.expand_dims(np_arr(v["a"], T), tuple(v["axes"]))))


def _gv_repeat(rng, dims, primary=None):
    n, mode = dims
    shape = primary or vshape(rng, n, 2 if n > 2 else 3)
    v = _g_repeat(rng, (len(shape), mode), shape)
    return dict(a=A(shape, 1), repeats=v["repeats"], axis=v["axis"])


vop("repeat", ["nmtools/array/view/repeat.hpp"], [ARR("a"), IS("repeats"), IS("axis", optional=True)], "view::repeat({a},{repeats},{axis})",
    [(1, 0), (2, 0), (3, 0), (2, 1)], _gv_repeat, lambda v, T="int": AR(np.repeat(np_arr(v["a"], T), v["repeats"], axis=v["axis"])))


def _gv_pad(rng, dims, primary=None):
    n, = dims
    shape = primary or vshape(rng, n, 2 if n > 2 else 3)
    return dict(a=A(shape, 1), pad_width=[rng.randint(0, 1) for _ in range(2 * len(shape))])


def _ov_pad(v, T="int"):
    a = np_arr(v["a"], T)
    w = v["pad_width"]
    n = a.ndim
    if len(w) != 2 * n:
        return INVALID
    return AR(np.pad(a, [(w[i], w[n + i]) for i in range(n)]))


vop("pad", ["nmtools/array/view/pad.hpp"], [ARR("a"), IA("pad_width")], "view::pad({a},{pad_width})", [(1,), (2,), (3,)], _gv_pad, _ov_pad)


# ----------------------------------------------------------------------------------------------------
# composite view operations (depth 2 and 3): ordinary view operations whose call expression nests views.
# The inner view is a temporary (possibly a nmtools_maybe<view>) handed straight to the outer view; the generated
# instance reads the outer lazy view, its static traits, evaluates it once and prints the traits of the result type -
# so the inferred result buffer of a view-of-a-view (fixed / bounded / dynamic) is compared with the run-time object
# and with NumPy.  Inner views: enlarging (tile, repeat, pad, broadcast_to), shrinking (sum), joining (concatenate, add);
# outer views: reductions, accumulations, element-wise and rearranging views.
# ----------------------------------------------------------------------------------------------------

def _vh(*names):
    return ["nmtools/array/view/%s.hpp" % n for n in names]


_SUM = "view::sum(%s,{axis},nm::None,nm::None,{keepdims})"


def cvop(name, parts, headers, args, call, dims, gen, oracle, **kw):
    return vop(name, headers, args, call, dims, gen, oracle, parts=parts, **kw)


def _cshape(rng, n, primary):
    return list(primary) if primary else vshape(rng, n, 3 if n <= 2 else 2)


def _axis(rng, nd):
    return rng.randrange(-nd, nd)


def _keep(rng):
    return int(rng.random() < 0.5)


def _np_sum(x, v):
    if not -x.ndim <= v["axis"] < x.ndim:
        return INVALID
    return AR(np.sum(x, axis=v["axis"], keepdims=bool(v["keepdims"])))


def _np_pad(a, w):
    n = a.ndim
    if len(w) != 2 * n:
        return None
    return np.pad(a, [(w[i], w[n + i]) for i in range(n)])


# --- sum(tile(a,reps),axis,keepdims)
def _gc_sum_tile(rng, dims, primary=None):
    n, m = dims
    shape = _cshape(rng, n, primary)
    return dict(a=A(shape, 1), reps=rshape(rng, m, 3), axis=_axis(rng, max(len(shape), m)), keepdims=_keep(rng))


cvop("sum_tile", ("sum", "tile"), _vh("sum", "tile"), [ARR("a"), IA("reps"), IS("axis", signed=True, lo=-4), IS("keepdims", boolean=True)],
     _SUM % "view::tile({a},{reps})", [(2, 2), (1, 2), (2, 1), (3, 2)], _gc_sum_tile,
     lambda v, T="int": _np_sum(np.tile(np_arr(v["a"], T), v["reps"]), v))


# --- cumsum(repeat(a,repeats,raxis),axis)
def _gc_cumsum_repeat(rng, dims, primary=None):
    n, = dims
    shape = _cshape(rng, n, primary)
    n = len(shape)
    return dict(a=A(shape, 1), repeats=rng.choice([1, 2, 2, 3, 3]), raxis=rng.randrange(n), axis=_axis(rng, n))


def _oc_cumsum_repeat(v, T="int"):
    a = np_arr(v["a"], T)
    if not 0 <= v["raxis"] < a.ndim or not -a.ndim <= v["axis"] < a.ndim or v["repeats"] < 0:
        return INVALID
    return AR(np.cumsum(np.repeat(a, v["repeats"], axis=v["raxis"]), axis=v["axis"]))


cvop("cumsum_repeat", ("cumsum", "repeat"), _vh("cumsum", "repeat"), [ARR("a"), IS("repeats"), IS("raxis"), IS("axis", signed=True, lo=-4)],
     "view::cumsum(view::repeat({a},{repeats},{raxis}),{axis})", [(2,), (1,), (3,)], _gc_cumsum_repeat, _oc_cumsum_repeat)


# --- sum(pad(a,pad_width),axis,keepdims)
def _gc_sum_pad(rng, dims, primary=None):
    n, = dims
    shape = _cshape(rng, n, primary)
    n = len(shape)
    return dict(a=A(shape, 1), pad_width=[rng.randint(0, 2) for _ in range(2 * n)], axis=_axis(rng, n), keepdims=_keep(rng))


def _oc_sum_pad(v, T="int"):
    p = _np_pad(np_arr(v["a"], T), v["pad_width"])
    return INVALID if p is None else _np_sum(p, v)


cvop("sum_pad", ("sum", "pad"), _vh("sum", "pad"), [ARR("a"), IA("pad_width"), IS("axis", signed=True, lo=-4), IS("keepdims", boolean=True)],
     _SUM % "view::pad({a},{pad_width})", [(2,), (1,), (3,)], _gc_sum_pad, _oc_sum_pad)


# --- sum(broadcast_to(a,dst),axis,keepdims)
def _gc_sum_bto(rng, dims, primary=None):
    v = _gv_bto(rng, dims, primary)
    return dict(a=v["a"], dst=v["dst"], axis=_axis(rng, len(v["dst"])), keepdims=_keep(rng))


def _oc_sum_bto(v, T="int"):
    try:
        b = np.broadcast_to(np_arr(v["a"], T), v["dst"])
    except ValueError:
        return NOTHING
    return _np_sum(b, v)


cvop("sum_bto", ("sum", "broadcast_to"), _vh("sum", "broadcast_to"), [ARR("a"), IA("dst"), IS("axis", signed=True, lo=-4), IS("keepdims", boolean=True)],
     _SUM % "view::broadcast_to({a},{dst})", [(2, 3), (2, 2), (1, 2), (1, 3)], _gc_sum_bto, _oc_sum_bto)


# --- transpose(pad(a,pad_width),axes)
def _gc_transpose_pad(rng, dims, primary=None):
    n, = dims
    shape = _cshape(rng, n, primary)
    n = len(shape)
    ax = list(range(n))
    rng.shuffle(ax)
    return dict(a=A(shape, 1), pad_width=[rng.randint(0, 1) for _ in range(2 * n)], axes=ax)


def _oc_transpose_pad(v, T="int"):
    p = _np_pad(np_arr(v["a"], T), v["pad_width"])
    if p is None or sorted(v["axes"]) != list(range(p.ndim)):
        return INVALID
    return AR(np.transpose(p, v["axes"]))


cvop("transpose_pad", ("transpose", "pad"), _vh("transpose", "pad"), [ARR("a"), IA("pad_width"), IA("axes")],
     "view::transpose(view::pad({a},{pad_width}),{axes})", [(2,), (3,)], _gc_transpose_pad, _oc_transpose_pad)


# --- flatten(concatenate(a,b,axis))
def _gc_flatten_concat(rng, dims, primary=None):
    # only joinable operands: view::concatenate asserts on mismatching shapes (a precondition, it has no failure channel;
    # invalid arguments are C15's) although flatten() of a dynamic-dimensional result is a maybe type
    n, = dims
    while True:
        v = _gv_concat(rng, (len(primary) if primary else n, False), primary)
        if _ov_concat(v) != NOTHING:
            return v


def _oc_flatten_concat(v, T="int"):
    r = _ov_concat(v, T)
    if r in (INVALID, NOTHING):
        return r
    return AR(np.concatenate([np_arr(v["a"], T), np_arr(v["b"], T)], axis=v["axis"]).flatten())


cvop("flatten_concat", ("flatten", "concatenate"), _vh("flatten", "concatenate"), [ARR("a"), ARR("b"), IS("axis")],
     "view::flatten(view::concatenate({a},{b},{axis}))", [(2,), (1,), (3,)], _gc_flatten_concat, _oc_flatten_concat)


# --- add(broadcast_to(a,dst),b)
def _gc_add_bto(rng, dims, primary=None):
    n, m, k = dims
    v = _gv_bto(rng, (n, m), primary)
    dst = v["dst"]
    k = min(k, len(dst))
    b = [x if rng.random() < 0.6 else 1 for x in dst[len(dst) - k:]]
    return dict(a=v["a"], dst=dst, b=A(b, 50))


def _oc_add_bto(v, T="int"):
    try:
        return AR(np.add(np.broadcast_to(np_arr(v["a"], T), v["dst"]), np_arr(v["b"], T)))
    except ValueError:
        return NOTHING


cvop("add_bto", ("add", "broadcast_to"), _vh("ufuncs/add", "broadcast_to"), [ARR("a"), IA("dst"), ARR("b")],
     "view::add(view::broadcast_to({a},{dst}),{b})", [(2, 2, 2), (2, 3, 2), (1, 2, 2), (1, 3, 3)], _gc_add_bto, _oc_add_bto)


# --- reshape(tile(a,reps),dst)
def _gc_reshape_tile(rng, dims, primary=None):
    n, m, k = dims
    shape = _cshape(rng, n, primary)
    reps = rshape(rng, m, 2)
    ts = np.tile(np.zeros(shape, dtype=np.int8), reps).shape
    dst = _factor(rng, int(np.prod(ts)), k)
    if rng.random() < 0.1:
        j = rng.randrange(k)
        dst[j] += 1
    return dict(a=A(shape, 1), reps=reps, dst=dst)


def _oc_reshape_tile(v, T="int"):
    if any(d <= 0 for d in v["dst"]):
        return INVALID
    try:
        return AR(np.tile(np_arr(v["a"], T), v["reps"]).reshape(v["dst"]))
    except ValueError:
        return NOTHING


cvop("reshape_tile", ("reshape", "tile"), _vh("reshape", "tile"), [ARR("a"), IA("reps"), IA("dst")],
     "view::reshape(view::tile({a},{reps}),{dst})", [(2, 2, 2), (2, 2, 1), (1, 2, 3), (2, 1, 3)], _gc_reshape_tile, _oc_reshape_tile)


# --- sum(transpose(tile(a,reps),axes),axis,keepdims)   (depth 3)
def _gc_sum_transpose_tile(rng, dims, primary=None):
    n, = dims
    shape = _cshape(rng, n, primary)
    n = len(shape)
    ax = list(range(n))
    rng.shuffle(ax)
    return dict(a=A(shape, 1), reps=rshape(rng, n, 3 if n <= 2 else 2), axes=ax, axis=_axis(rng, n), keepdims=_keep(rng))


def _oc_sum_transpose_tile(v, T="int"):
    t = np.tile(np_arr(v["a"], T), v["reps"])
    if sorted(v["axes"]) != list(range(t.ndim)):
        return INVALID
    return _np_sum(np.transpose(t, v["axes"]), v)


cvop("sum_transpose_tile", ("sum", "transpose", "tile"), _vh("sum", "transpose", "tile"),
     [ARR("a"), IA("reps"), IA("axes"), IS("axis", signed=True, lo=-4), IS("keepdims", boolean=True)],
     _SUM % "view::transpose(view::tile({a},{reps}),{axes})", [(2,), (3,)], _gc_sum_transpose_tile, _oc_sum_transpose_tile)


# --- multiply(sum(a,axis,keepdims),b)
def _gc_mul_sum(rng, dims, primary=None):
    n, = dims
    shape = _cshape(rng, n, primary)
    n = len(shape)
    ax = _axis(rng, n)
    keep = int(rng.random() < 0.6)
    r = list(np.sum(np.zeros(shape, dtype=np.int8), axis=ax, keepdims=bool(keep)).shape)
    if keep:
        b = [x if rng.random() < 0.7 else 1 for x in shape]       # b may restore the reduced axis
    else:
        b = [1] * (n - len(r)) + [x if rng.random() < 0.7 else 1 for x in r]
    if rng.random() < 0.1:
        j = rng.randrange(len(b))
        b[j] = b[j] % 3 + 2
    return dict(a=A(shape, 1), axis=ax, keepdims=keep, b=A(b, 50))


def _oc_mul_sum(v, T="int"):
    a = np_arr(v["a"], T)
    if not -a.ndim <= v["axis"] < a.ndim:
        return INVALID
    try:
        return AR(np.multiply(np.sum(a, axis=v["axis"], keepdims=bool(v["keepdims"])), np_arr(v["b"], T)))
    except ValueError:
        return NOTHING


cvop("mul_sum", ("multiply", "sum"), _vh("ufuncs/multiply", "sum"), [ARR("a"), IS("axis", signed=True, lo=-4), IS("keepdims", boolean=True), ARR("b")],
     "view::multiply(" + _SUM % "{a}" + ",{b})", [(2,), (3,)], _gc_mul_sum, _oc_mul_sum)


# --- slice(tile(a,reps),(start,stop),...)
def _gc_slice_tile(rng, dims, primary=None):
    n, m = dims
    shape = _cshape(rng, n, primary)
    reps = rshape(rng, m, 3)
    e = int(np.tile(np.zeros(shape, dtype=np.int8), reps).shape[0])
    s = rng.randrange(e)
    return dict(a=A(shape, 1), reps=reps, start=s, stop=rng.randint(s + 1, e))


def _oc_slice_tile(v, T="int"):
    t = np.tile(np_arr(v["a"], T), v["reps"])
    if t.ndim < 2 or not (0 <= v["start"] < v["stop"] <= t.shape[0]):
        return INVALID
    return AR(t[v["start"]:v["stop"], ...])


cvop("slice_tile", ("slice", "tile"), _vh("slice", "tile"), [ARR("a"), IA("reps"), IS("start"), IS("stop")],
     "view::slice(view::tile({a},{reps}),nmtools_tuple{{{start},{stop}}},nm::Ellipsis)", [(2, 2), (2, 1), (1, 2), (3, 2)], _gc_slice_tile, _oc_slice_tile)


# --- cumsum(flatten(repeat(a,repeats,raxis)),0)   (depth 3)
def _gc_cumsum_flatten_repeat(rng, dims, primary=None):
    n, = dims
    shape = _cshape(rng, n, primary)
    return dict(a=A(shape, 1), repeats=rng.choice([1, 2, 2, 3, 3]), raxis=rng.randrange(len(shape)))


def _oc_cumsum_flatten_repeat(v, T="int"):
    a = np_arr(v["a"], T)
    if not 0 <= v["raxis"] < a.ndim or v["repeats"] < 0:
        return INVALID
    return AR(np.cumsum(np.repeat(a, v["repeats"], axis=v["raxis"]).flatten()))


cvop("cumsum_flatten_repeat", ("cumsum", "flatten", "repeat"), _vh("cumsum", "flatten", "repeat"), [ARR("a"), IS("repeats"), IS("raxis")],
     "view::cumsum(view::flatten(view::repeat({a},{repeats},{raxis})),0)", [(2,), (3,), (1,)], _gc_cumsum_flatten_repeat, _oc_cumsum_flatten_repeat)


# --- tile(sum(a,axis,keepdims),reps)
def _gc_tile_sum(rng, dims, primary=None):
    n, m = dims
    shape = _cshape(rng, n, primary)
    return dict(a=A(shape, 1), axis=_axis(rng, len(shape)), keepdims=_keep(rng), reps=rshape(rng, m, 2))


def _oc_tile_sum(v, T="int"):
    a = np_arr(v["a"], T)
    if not -a.ndim <= v["axis"] < a.ndim:
        return INVALID
    return AR(np.tile(np.sum(a, axis=v["axis"], keepdims=bool(v["keepdims"])), v["reps"]))


cvop("tile_sum", ("tile", "sum"), _vh("tile", "sum"), [ARR("a"), IS("axis", signed=True, lo=-4), IS("keepdims", boolean=True), IA("reps")],
     "view::tile(" + _SUM % "{a}" + ",{reps})", [(2, 2), (2, 1), (3, 2)], _gc_tile_sum, _oc_tile_sum)


# --- sum(add(a,b),axis,keepdims)
def _gc_sum_add(rng, dims, primary=None):
    v = _gv_binary(rng, dims, primary)
    nd = max(len(v["a"]["shape"]), len(v["b"]["shape"]))
    return dict(a=v["a"], b=v["b"], axis=_axis(rng, nd), keepdims=_keep(rng))


def _oc_sum_add(v, T="int"):
    try:
        s = np.add(np_arr(v["a"], T), np_arr(v["b"], T))
    except ValueError:
        return NOTHING
    return _np_sum(s, v)


cvop("sum_add", ("sum", "add"), _vh("sum", "ufuncs/add"), [ARR("a"), ARR("b"), IS("axis", signed=True, lo=-4), IS("keepdims", boolean=True)],
     _SUM % "view::add({a},{b})", [(2, 2), (1, 2), (3, 2)], _gc_sum_add, _oc_sum_add)

COMPOSITES = [n for n, o_ in OPS.items() if o_.composite]


# ----------------------------------------------------------------------------------------------------
# candidate configurations of an operation (the probe decides which of them exist)
# ----------------------------------------------------------------------------------------------------

IA_UNIFORM = ["ct", "lit", "clt", "cla", "clv", "fx", "raw", "tp", "sv", "hy", "dy", "mdy", "mfx"]
IA_T = {"fx": ["int", "size_t", "long"], "dy": ["int", "size_t"], "sv": ["int", "size_t"], "tp": ["int", "size_t"], "raw": ["int", "i8"],
        "hy": ["int"], "mdy": ["size_t"], "mfx": ["int"], "svt": ["int", "size_t"]}
IS_FOR_IA = {"ct": "ct", "lit": "lit", "clt": "cl", "cla": "cl", "clv": "cl"}
MIXED_IA = [("ct", "fx"), ("ct", "dy"), ("ct", "clt"), ("ct", "sv"), ("clt", "ct"), ("clt", "fx"), ("clt", "dy"), ("clt", "sv"),
            ("fx", "ct"), ("fx", "dy"), ("fx", "sv"), ("fx", "clt"), ("sv", "dy"), ("sv", "ct"), ("sv", "fx"), ("dy", "ct"), ("dy", "fx"),
            ("dy", "sv"), ("dy", "clt"), ("cla", "fx"), ("cla", "ct"), ("clv", "dy"), ("tp", "fx"), ("raw", "dy"), ("hy", "fx"),
            ("lit", "fx"), ("fx", "lit"), ("mdy", "fx"), ("fx", "mdy"), ("mdy", "ct"), ("sv", "clt"), ("cla", "sv")]


MIXED_IA2 = [("svt", "fx"), ("fx", "svt"), ("svt", "dy"), ("dy", "svt"), ("ct", "svt"), ("svt", "ct"), ("svt", "sv"), ("clt", "svt"), ("svt", "tp")]


def _t_for(a, kind, prefer=None):
    ts = IA_T.get(kind)
    if ts is None:
        return None
    if a.signed:
        ts = [t for t in ts if TRANGE[t][0] < 0] or ["int"]
    if prefer in ts:
        return prefer
    return ts[0]


def _is_cfg(a, base_kind, T="int"):
    """scalar argument kind that goes with an index-array kind `base_kind`"""
    if a.boolean:
        return ArgCfg("tt") if base_kind in CONST_KINDS else ArgCfg("b")
    k = IS_FOR_IA.get(base_kind, "rt")
    if k == "rt":
        t = T or "int"
        if a.signed and TRANGE[t][0] >= 0:
            t = "int"
        return ArgCfg("rt", t)
    return ArgCfg(k)


IDX_ROT = ["fx", "ct", "dy", "clt", "sv", "tp", "lit", "raw", "cla", "hy", "clv"]
NO_SCALAR_CL = ("sum", "slice", "repeat")
ARR_MIXED = [("cs_fb", "ds_db"), ("ds_db", "cs_fb"), ("ls_hb", "fs_fb"), ("fs_fb", "ls_hb"), ("hs_hb", "raw"), ("raw", "hs_hb"),
             ("nested", "ds_db"), ("fixed_nd", "dynamic_nd"), ("dynamic_nd", "hybrid_nd"), ("cs_db", "ls_db"), ("ls_fb", "cs_hb"),
             ("hs_db", "ds_hb"), ("ds_fb", "hs_fb"), ("cm_ds_db", "ds_db"), ("cs_fb", "cm_cs_fb"), ("cm_ls_hb", "hs_hb"),
             ("fs_hb", "cs_fb"), ("fs_db", "hybrid_nd"), ("ds_hb", "fixed_nd"), ("raw", "ds_db"), ("ds_db", "ls_fb")]


CM_QUICK = ("cm_ds_db", "cm_cs_fb", "cm_ls_hb", "cm_hs_db")


def view_base_cfgs(o, small=False):
    """every array kind once (index arguments rotate over their kinds) + the mixed operand pairs;
    small: the 15 ndarray kinds, 4 column-major twins, the 5 other array kinds and every other mixed pair"""
    arrs = [a for a in o.args if a.typ == "arr"]
    n = len(ARR_KINDS) + (len(ARR_MIXED) if len(arrs) >= 2 else 0)
    base = candidates_view(o, base_only=True)[:n]
    if not small:
        return base
    out = []
    for i, c in enumerate(base):
        if i < len(ARR_KINDS):
            k = ARR_KINDS[i]
            if k.startswith("cm_") and k not in CM_QUICK:
                continue
        elif (i - len(ARR_KINDS)) % 2:
            continue
        out.append(c)
    return out


# Composite operations: array kinds whose storage is inferred as fixed / bounded (fixed or hybrid buffer, constant or clipped
# shape, raw / nested / fixed / hybrid arrays), each with RUN-TIME index arguments of two kinds - the region in which the
# inferred result buffer of a view-of-a-view depends on what the inner view knows about its own size.
COMPOSITE_TARGET_KINDS = ["cs_fb", "cs_hb", "cs_db", "fs_fb", "fs_hb", "hs_fb", "hs_hb", "ds_fb", "ds_hb", "ls_fb", "ls_hb",
                          "raw", "nested", "fixed_nd", "hybrid_nd", "ds_db", "dynamic_nd"]
RT_ROT = ["fx", "dy", "sv", "tp"]
# quick tier: these array kinds (run-time index arguments) + two configurations with constant / clipped index arguments
COMPOSITE_QUICK_KINDS = ["cs_fb", "fs_hb", "hs_hb", "ds_fb", "ds_hb", "ls_hb", "raw", "nested", "fixed_nd", "hybrid_nd", "ds_db"]
COMPOSITE_QUICK_CONST = [("cs_fb", "ct"), ("ds_db", "clt")]


def _view_build(o):
    """configuration string of o from (array kinds, index kind)"""
    def build(akinds, ik):
        cfg = []
        it = iter(akinds)
        for a in o.args:
            if a.typ == "arr":
                cfg.append(ArgCfg(next(it)))
            elif a.typ == "ia":
                cfg.append(ArgCfg(ik, _t_for(a, ik)))
            else:
                c = _is_cfg(a, ik)
                if c.kind == "cl" and (o.name in NO_SCALAR_CL or o.composite):
                    c = ArgCfg("rt", "int" if a.signed else "size_t")
                if a.boolean and o.composite:
                    c = ArgCfg("tt")
                cfg.append(c)
        return cfg_str(cfg)
    return build


def _view_build2(o):
    """configuration string of a second-wave view from (array kinds, index kind): the build() of candidates_view"""
    has_ia = any(a.typ == "ia" for a in o.args)

    def build(akinds, ik):
        cfg = []
        it = itertools.cycle(akinds) if akinds else iter(())
        for a in o.args:
            if a.typ == "arr":
                cfg.append(ArgCfg(next(it)))
            elif a.typ == "ia":
                cfg.append(ArgCfg(ik, _t_for(a, ik)))
            else:
                c = _is_cfg(a, ik)
                if a.boolean:
                    c = ArgCfg("tt")
                elif c.kind == "cl" and has_ia:
                    c = ArgCfg("rt", "int" if a.signed else "size_t")
                cfg.append(c)
        return cfg_str(cfg)
    return build


def composite_target_cfgs(o, build=None, quick=False):
    build = build or _view_build(o)
    narr = len([a for a in o.args if a.typ == "arr"])
    out = []
    kinds = COMPOSITE_QUICK_KINDS if quick else COMPOSITE_TARGET_KINDS
    for i, k in enumerate(COMPOSITE_TARGET_KINDS):
        if k not in kinds:
            continue
        out.append(build([k] * narr, RT_ROT[i % len(RT_ROT)]))
        if not quick:
            out.append(build([k] * narr, RT_ROT[(i + 2) % len(RT_ROT)]))
    if quick:
        for k, ik in COMPOSITE_QUICK_CONST:
            out.append(build([k] * narr, ik))
    res = []
    for c in out:
        if c not in res:
            res.append(c)
    return res


def candidates_view(o, base_only=False):
    arrs = [a for a in o.args if a.typ == "arr"]
    out = []

    has_ia = any(a.typ == "ia" for a in o.args)

    def build(akinds, ik, flip=False):
        cfg = []
        it = itertools.cycle(akinds) if akinds else iter(())
        for a in o.args:
            if a.typ == "arr":
                cfg.append(ArgCfg(next(it)))
            elif a.typ == "ia":
                cfg.append(ArgCfg(ik, _t_for(a, ik)))
            else:
                c = _is_cfg(a, ik)
                if o.wave >= 2:
                    # second wave: booleans are compile-time constants; a scalar next to a clipped index ARRAY is a run-time value
                    # (clipped scalars are exercised by the operations whose arguments are all scalars)
                    if a.boolean:
                        c = ArgCfg("tt")
                    elif c.kind == "cl" and has_ia:
                        c = ArgCfg("rt", "int" if a.signed else "size_t")
                    cfg.append(c)
                    continue
                if c.kind == "cl" and (o.name in NO_SCALAR_CL or o.composite):
                    # the operation does not compile with a clipped scalar (probed): use a run-time scalar for this array kind
                    c = ArgCfg("rt", "int" if a.signed else "size_t")
                if a.boolean and flip:
                    c = ArgCfg("b" if c.kind == "tt" else "tt")
                if a.boolean and o.composite:
                    # a run-time bool keepdims (dimension decided at run time) is not evaluable for ANY array kind (probed on
                    # sum): composites carry keepdims as a compile-time constant with every index kind
                    c = ArgCfg("tt")
                cfg.append(c)
        return cfg_str(cfg)

    has_idx = any(a.typ != "arr" for a in o.args)
    has_bool = any(a.typ == "is" and a.boolean for a in o.args) and o.wave < 2
    rot = IDX_ROT if o.wave < 2 else IDX_ROT + ["svt", "mdy", "mfx"]
    for i, k in enumerate(ARR_KINDS):
        out.append(build([k] * len(arrs), rot[i % len(rot)], flip=has_bool and i % 2 == 1))
    if len(arrs) >= 2:
        for i, (k1, k2) in enumerate(ARR_MIXED):
            out.append(build([k1, k2], rot[i % len(rot)]))
    if o.composite and not base_only:
        out += composite_target_cfgs(o, build=build)
    if has_idx and not base_only:
        for k in (("ds_db", "cs_fb", "ls_hb", "fs_hb", "hs_db") if arrs else ("",)):
            for ik in rot:
                out.append(build([k] * len(arrs), ik))
        if has_bool and not o.composite:
            for i, k in enumerate(ARR_KINDS):
                out.append(build([k] * len(arrs), IDX_ROT[i % len(IDX_ROT)], flip=i % 2 == 0))
    if o.wave >= 2 and not arrs and not has_ia and not base_only:
        # generator views (arange, eye, ...): every combination of constant / literal / clipped / run-time scalars
        iss = [a for a in o.args if a.typ == "is"]
        nb = [a for a in iss if not a.boolean]
        for combo in itertools.product(("ct", "rt:int", "cl", "lit"), repeat=len(nb)):
            it = iter(combo)
            out.append("|".join("tt" if a.boolean else next(it) for a in iss))
    seen = set()
    res = []
    for c in out:
        if c not in seen:
            seen.add(c)
            res.append(c)
    return res


def candidates(o):
    """list of configuration strings to probe for operation o"""
    if o.family == "view":
        return candidates_view(o)
    out = []
    ias = [a for a in o.args if a.typ == "ia"]

    def build(kinds, T=None):
        cfg = []
        it = iter(kinds)
        first = kinds[0]
        for a in o.args:
            if a.typ == "ia":
                k = next(it)
                cfg.append(ArgCfg(k, _t_for(a, k, T)))
            else:
                cfg.append(_is_cfg(a, first, T))
        return cfg_str(cfg)

    n = max(1, len(ias))
    for k in (IA_UNIFORM + ["svt"] if o.wave >= 2 else IA_UNIFORM):
        ts = IA_T.get(k, [None])
        for T in ts:
            out.append(build([k] * n, T))
    if len(ias) >= 2:
        for (k1, k2) in (MIXED_IA + MIXED_IA2 if o.wave >= 2 else MIXED_IA):
            kinds = [k1, k2] + [k2] * (len(ias) - 2)
            out.append(build(kinds))
    if ias:
        # scalar arguments of another kind than the arrays
        iss = [a for a in o.args if a.typ == "is" and not a.boolean]
        if iss:
            for ka, ks in (("fx", "ct"), ("dy", "ct"), ("ct", "rt"), ("clt", "rt"), ("fx", "cl"), ("dy", "cl"), ("clt", "ct"), ("sv", "ct"), ("sv", "cl")):
                cfg = []
                for a in o.args:
                    if a.typ == "ia":
                        cfg.append(ArgCfg(ka, _t_for(a, ka)))
                    elif a.boolean:
                        cfg.append(ArgCfg("tt" if ks == "ct" else "b"))
                    else:
                        cfg.append(ArgCfg(ks, "int" if ks == "rt" else None))
                out.append(cfg_str(cfg))
        bs = [a for a in o.args if a.typ == "is" and a.boolean]
        if bs:
            for ka in ("fx", "dy", "clt", "sv"):
                cfg = []
                for a in o.args:
                    if a.typ == "ia":
                        cfg.append(ArgCfg(ka, _t_for(a, ka)))
                    elif a.boolean:
                        cfg.append(ArgCfg("tt"))
                    else:
                        cfg.append(_is_cfg(a, ka))
                out.append(cfg_str(cfg))
            cfg = []
            for a in o.args:
                if a.typ == "ia":
                    cfg.append(ArgCfg("ct"))
                elif a.boolean:
                    cfg.append(ArgCfg("b"))
                else:
                    cfg.append(ArgCfg("ct"))
            out.append(cfg_str(cfg))
    else:
        for ks in ("ct", "lit", "cl", "rt:int", "rt:size_t", "rt:long"):
            pass
    if not ias:
        iss = [a for a in o.args if a.typ == "is"]
        for combo in itertools.product(("ct", "cl", "rt:int", "rt:long", "lit"), repeat=len(iss)):
            out.append("|".join(combo))
    if o.cx:
        out.append("cx")
    seen = set()
    res = []
    for c in out:
        if c not in seen:
            seen.add(c)
            res.append(c)
    return res


# ----------------------------------------------------------------------------------------------------
# groups and programs
# ----------------------------------------------------------------------------------------------------

class Inst:
    """one VH_OP: configuration `cfg` (string) instantiated for baked value set j (or None)"""

    def __init__(self, name, cfg, j):
        self.name = name
        self.cfg = cfg
        self.j = j


class Group:
    def __init__(self, gid, o, dims, baked, sig, cfgs):
        self.gid = gid
        self.op = o
        self.dims = dims
        self.baked = baked      # list of value dicts
        self.sig = sig          # arg name -> dict(n=, mx=[...]) / dict(mx=) for scalars / None-ness
        self.cfgs = cfgs        # list of configuration strings
        self.insts = []
        for ci, c in enumerate(cfgs):
            if self.is_const_bound(c):
                for j in range(len(baked)):
                    self.insts.append(Inst("g%dc%dv%d" % (gid, ci, j), c, j))
            else:
                self.insts.append(Inst("g%dc%d" % (gid, ci), c, None))

    def argcfgs(self, c):
        if c == "cx":
            return None
        return cfg_parse(c)

    def is_const_bound(self, c):
        if c == "cx":
            return True
        for a, ac in zip(self.op.args, cfg_parse(c)):
            if a.typ == "arr":
                continue
            if ac.kind in CONST_KINDS or ac.kind == "tt":
                return True
        return False

    def admits(self, inst, vals):
        """may this instance be run on the value set?"""
        c = inst.cfg
        base = self.baked[inst.j] if inst.j is not None else None
        if self.op.exclude is not None and c != "cx" and self.op.exclude(c, vals):
            return False
        if c == "cx":
            return vals == base
        for a, ac in zip(self.op.args, cfg_parse(c)):
            v = vals.get(a.name)
            sg = self.sig.get(a.name)
            if (v is None) != (sg is None):
                return False
            if v is None:
                continue
            if a.typ == "ia":
                k = ac.kind
                if k in CONST_KINDS:
                    if v != base[a.name]:
                        return False
                    continue
                if k in ("fx", "raw", "tp", "mfx", "cla", "clt") and len(v) != sg["n"]:
                    return False
                if k in ("sv", "hy", "clv") and len(v) > CAP:
                    return False
                if k == "svt" and len(v) > sg["n"]:
                    return False
                if k == "clt" and any(x > m or x < a.lo for x, m in zip(v, sg["mx"])):
                    return False
                if k in ("cla", "clv") and any(x > max(sg["mx"]) or x < a.lo for x in v):
                    return False
                if a.placeholder and k == "clt" and any((x < 0) != (y < 0) for x, y in zip(v, (base or self.baked[0])[a.name])):
                    return False
                if a.placeholder and k in ("cla", "clv") and any(x < 0 for x in v):
                    return False
                if ac.T and any(not (TRANGE[ac.T][0] <= x <= TRANGE[ac.T][1]) for x in v):
                    return False
            elif a.typ == "is":
                k = ac.kind
                if k in CONST_KINDS or k == "tt":
                    if v != base[a.name]:
                        return False
                elif k == "cl":
                    if v > sg["mx"] or v < a.lo:
                        return False
                elif k == "rt":
                    if not (TRANGE[ac.T][0] <= v <= TRANGE[ac.T][1]):
                        return False
            else:
                S = self.sig[a.name]["S"]
                if not arr_admits(ac.kind, S, v["shape"]):
                    return False
        return True

    # ---- C++ ----
    def emit(self):
        out = []
        for inst in self.insts:
            out.append(self.emit_inst(inst))
        return "\n".join(out)

    def case_tokens(self, vals):
        """serialise a value set into the tokens of a case line (order of op.args)"""
        toks = []
        for a in self.op.args:
            v = vals.get(a.name)
            if a.typ == "ia":
                v = v or []
                toks.append(str(len(v)))
                toks += [str(x) for x in v]
            elif a.typ == "is":
                toks.append(str(int(v or 0)))
            else:
                s = v["shape"]
                toks.append(str(len(s)))
                toks += [str(x) for x in s]
        return " ".join(toks)

    def emit_inst(self, inst):
        o = self.op
        e = Emit()
        base = self.baked[inst.j] if inst.j is not None else self.baked[0]
        # read the case line
        for a in o.args:
            if a.typ in ("ia", "arr"):
                e.add("const auto v_%s = in.vec();" % a.name)
            else:
                e.add("const auto v_%s = in.i();" % a.name)
            e.add("(void)v_%s;" % a.name)
        names = {}
        if inst.cfg == "cx":
            for a in o.args:
                v = base.get(a.name)
                nm_ = "a_" + a.name
                names[a.name] = nm_
                if v is None:
                    e.add("constexpr auto %s = nm::None;" % nm_)
                elif a.typ == "ia":
                    T = "int" if a.signed else "nm_size_t"
                    e.add("constexpr auto %s = nmtools_array<%s,%d>{%s};" % (nm_, T, len(v), ",".join("(%s)%d" % (T, x) for x in v)))
                elif a.boolean:
                    e.add("constexpr auto %s = %s;" % (nm_, "nm::True" if v else "nm::False"))
                else:
                    T = "int" if a.signed else "nm_size_t"
                    e.add("constexpr %s %s = %d;" % (T, nm_, v))
            e.add("constexpr auto r = %s;" % o.call.format(**names))
        else:
            for a, ac in zip(o.args, cfg_parse(inst.cfg)):
                nm_ = "a_" + a.name
                names[a.name] = nm_
                v = base.get(a.name)
                if a.typ == "ia":
                    emit_ia(e, a, ac, nm_, "v_" + a.name, v, self.sig.get(a.name))
                elif a.typ == "is":
                    emit_is(e, a, ac, nm_, "v_" + a.name, v, self.sig.get(a.name))
                else:
                    emit_arr(e, a, ac, nm_, "v_" + a.name, self.sig[a.name]["S"], v["base"], self.sig[a.name]["T"], v.get("mod"))
                    # hook events of the construction of THIS operand (library code: ndarray constructor / resize)
                    e.add("c9::emit_hook_phase(out, \"HKA%d\");" % o.args.index(a))
            if o.result == "index":
                # static knowledge first: it is known even when the call itself throws
                e.add("out.tok(\"TR\"); c9::emit_index_traits<c9::rmcv<decltype(%s)>>(out);" % o.call.format(**names))
            e.add("c9::emit_hook_phase(out, \"HK0\");")
            e.add("const auto r = %s;" % o.call.format(**names))
        if o.result == "index":
            if inst.cfg == "cx":
                e.add("out.tok(\"TR\"); c9::emit_index_traits<c9::rmcv<decltype(r)>>(out);")
                e.add("c9::emit_hook_phase(out, \"HK0\");")
            e.add("out.tok(\"RES\"); c9::emit_any(out, r);")
            e.add("c9::emit_hook_phase(out, \"HK1\");")
        else:
            for a in o.args:
                if a.typ == "arr":
                    e.add("out.tok(\"OPD\"); c9::emit_array_traits(out, a_%s);" % a.name)
            e.add("c9::emit_view(out, r);")
        body = "\n    ".join(e.lines)
        return "VH_OP(%s)\n{\n    %s\n}\n" % (inst.name, body)


class Program:
    def __init__(self, name, groups):
        self.name = name
        self.groups = groups

    def text(self):
        hs = []
        for g in self.groups:
            for h in g.op.headers:
                if h not in hs:
                    hs.append(h)
        needs_view = any(g.op.result == "view" for g in self.groups)
        src = ["// generated by vf/c09_gen.py -- program %s" % self.name,
               "#include \"c09_common.hpp\""]
        if needs_view:
            src.append("#include \"c09_view.hpp\"")
        if any(g.op.wave >= 2 for g in self.groups):
            src.append("#include \"c09_extra.hpp\"")
        src += ["#include \"%s\"" % h for h in hs]
        src.append("using namespace nm::literals;")
        src.append("namespace view = nm::view;")
        for g in self.groups:
            src.append("// group %d: %s dims=%s baked=%s" % (g.gid, g.op.name, g.dims, json.dumps(g.baked)))
            src.append(g.emit())
        src.append("VH_MAIN()")
        return "\n".join(src) + "\n"

    def target(self, flavor):
        return B.Target(self.name + ".cpp", flavor, name=self.name, text=self.text())


# ----------------------------------------------------------------------------------------------------
# building groups from the seed
# ----------------------------------------------------------------------------------------------------

def load_supported():
    if not os.path.exists(SUPPORTED_JSON):
        return {}
    with open(SUPPORTED_JSON) as f:
        return json.load(f)


def make_sig(o, baked, rng):
    """signature of a group from its baked value sets: lengths and clipped maxima (>= every baked value)"""
    sig = {}
    for a in o.args:
        vs = [b.get(a.name) for b in baked]
        if vs[0] is None:
            sig[a.name] = None
            continue
        if a.typ == "ia":
            n = len(vs[0])
            # clipped maxima are >= 2: the library takes different type-level branches for a maximum of 1, and which branch a
            # program takes must not depend on the seed (maxima of 1 are covered by the ls_* array kinds of unit extent)
            mx = [max(2, max(v[i] for v in vs) + rng.choice([0, 0, 1, 2])) for i in range(n)]
            sig[a.name] = dict(n=n, mx=mx)
        elif a.typ == "is":
            sig[a.name] = dict(mx=max(2, max(vs) + rng.choice([0, 1, 2])))
        else:
            sig[a.name] = dict(S=list(vs[0]["shape"]), T=vs[0].get("T", "int"))
    return sig


def same_sig(o, v1, v2):
    for a in o.args:
        x, y = v1.get(a.name), v2.get(a.name)
        if (x is None) != (y is None):
            return False
        if x is None:
            continue
        if a.typ == "ia" and len(x) != len(y):
            return False
        if a.typ == "arr" and x["shape"] != y["shape"]:
            return False
    return True


def cfg_valid_for(o, c, baked):
    """can configuration c carry the baked values at all (literal range, clipped signs)?"""
    if c == "cx":
        return True
    for a, ac in zip(o.args, cfg_parse(c)):
        for b in baked:
            v = b.get(a.name)
            if v is None:
                continue
            if ac.kind == "lit":
                vs = v if isinstance(v, list) else [v]
                if not all(lit_ok(x) for x in vs):
                    return False
            if a.typ == "ia" and a.placeholder and ac.kind in ("cla", "clv") and any(x < 0 for x in v):
                return False
    return True


def make_group(gid, o, rng, supported_cfgs, nbaked, max_cfgs, pinned=(), dims=None, all_cfgs=False, small=False):
    """draw dims and baked value sets from the seed, choose configurations from the allow-list"""
    fixed_dims = dims
    for _ in range(50):
        dims = fixed_dims if fixed_dims is not None else rng.choice(o.dims)
        baked = []
        tries = 0
        while len(baked) < nbaked and tries < 200:
            tries += 1
            v = o.gen(rng, dims)
            ex = o.oracle(v)
            if ex == INVALID or ex == NOTHING or ex == ("V", []):
                # constant configurations cannot carry a failing call (it does not compile)
                continue
            arrs = [v[a.name]["shape"] for a in o.args if a.typ == "arr"]
            if arrs and tries < 150 and (min(int(np.prod(x)) for x in arrs) < 2 or max(int(np.prod(x)) for x in arrs) < 4):
                # template shapes of array operands must not be trivial
                continue
            if baked and not same_sig(o, baked[0], v):
                continue
            if v in baked:
                continue
            baked.append(v)
        if baked:
            break
    else:
        raise RuntimeError("cannot draw values for " + o.name)
    sig = make_sig(o, baked, rng)
    cfgs = [c for c in supported_cfgs if cfg_valid_for(o, c, baked)]
    if all_cfgs:
        return Group(gid, o, dims, baked, sig, cfgs)
    if o.family == "view":
        base = []
        for c in view_base_cfgs(o, small):
            twin = "|".join({"b": "tt", "tt": "b"}.get(x, x) for x in c.split("|"))
            if c in cfgs:
                base.append(c)
            elif twin in cfgs:
                base.append(twin)
        if not any(a.typ == "arr" for a in o.args):
            base = list(cfgs)[:24]       # generator views: the configurations differ in the index arguments only
        if o.composite:
            # the fixed / bounded array kinds with run-time index arguments are part of every program of a composite
            tgt = [c for c in composite_target_cfgs(o, quick=small) if c in cfgs]
            if small:
                base = tgt
            else:
                # thorough: the reduced kind set (15 ndarray kinds, 4 column-major twins, 5 other kinds, every other mixed pair)
                # + every target configuration; composites cost about twice a single view per configuration
                b2 = []
                for c in view_base_cfgs(o, True):
                    if c in cfgs:
                        b2.append(c)
                base = b2 + [c for c in tgt if c not in b2]
        if o.weight > 1:
            base = base[::o.weight]     # expensive operation: every weight-th array kind (deterministic)
        extra = [c for c in cfgs if c not in base and o.weight == 1]
        rng.shuffle(extra)
        chosen = base + extra[:max(0, max_cfgs - len(base))]
        return Group(gid, o, dims, baked, sig, chosen)
    uniform = [c for c in cfgs if len(set(cfg_kinds(c).split("|"))) == 1 or c == "cx"]
    mixed = [c for c in cfgs if c not in uniform]
    # uniform configurations: one element type per kind, chosen by the seed
    byk = {}
    for c in uniform:
        byk.setdefault(cfg_kinds(c), []).append(c)
    chosen = [rng.choice(v) for k, v in sorted(byk.items())]
    for c in pinned:
        if c in cfgs and c not in chosen:
            chosen.append(c)
    # every class signature (const / clipped / fixed / bounded / dynamic / maybe per argument) the allow-list has
    # is represented under every seed, so that the key of a defect does not depend on the seed
    rng.shuffle(mixed)
    seen_cls = {cfg_class(c) for c in chosen}
    rest = []
    for c in mixed:
        if cfg_class(c) not in seen_cls:
            seen_cls.add(cfg_class(c))
            chosen.append(c)
        else:
            rest.append(c)
    chosen += rest[:max(0, max_cfgs - len(chosen))]
    return Group(gid, o, dims, baked, sig, chosen)


if __name__ != "__main__":
    from . import c09_ops2  # noqa: E402,F401  (second wave of operations; registers itself in OPS)

if __name__ == "__main__":
    from . import c09_probe
    sys.exit(c09_probe.main(sys.argv[1:]))
